#!/usr/bin/env python3
"""Regenerates /verif/MANIFEST.json from the table below (kept in one place so
the manifest is always valid and `not_applicable` is always complete)."""
import json, subprocess

ALL = ["C%02d" % i for i in range(1, 21)]

# id -> dict(engine, technique, text, note, design_ref)
CHECKS = {
 "C08": dict(engine="enum", technique="bounded-exhaustive enumeration of bucket lists x observation sequences on the real code vs. fold/count reference",
   text="Every bucket list of length <=3 and every observation sequence of length <=3 (thorough 4) over a 9-class f64 pool is run through 7 API paths of the real histogram code and compared with a reference; exhaustive within those bounds.",
   note="f64 values outside the pool classes, lists longer than 3; reference model in harness/src/bin/c08.rs is trusted", ref="6 C08"),
 "C05": dict(engine="enum", technique="bounded-exhaustive enumeration of label-value tuples (all of POOL^arity and all ordered pairs) on the real vectors vs. a map reference",
   text="All tuples over an 18-string boundary-shifting pool (arity 1-3, quick: 11 strings for arity 3), 8 vector kinds incl. local variants, list and map request forms in every key order, wrong-arity/wrong-key requests, removal, and one 33-byte text cut into 2/3 consecutive values at every position are executed on the real code and compared child by child with a BTreeMap reference; exhaustive within the pool.",
   note="strings outside the pool; true 64-bit FNV collisions are out of reach", ref="6 C05"),
 "C09": dict(engine="enum", technique="bounded-exhaustive enumeration of strings in every name position, label clashes and registry settings vs. regex-equivalent predicate; gather output validated",
   text="Every string of length <=3 over a 12-character pool in every name position of 12 constructors, all (namespace|subsystem,name) pairs, all const/variable label assignments over {a,b,le} (lists up to 3, wide shapes with 7-11 labels), registry prefix/common-label settings, 2-3 same-name collectors told apart by a constant label under 0-2 common labels; each accepted metric is registered, sampled, gathered and the gathered names validated.",
   note="characters outside the pool, names longer than 3; common label `le` + histogram not judged", ref="6 C09"),
 "C17": dict(engine="enum", technique="bounded-exhaustive argument sweep of every Result-returning API under catch_unwind (debug assertions + overflow checks on)",
   text="Every listed fallible API is called over explicit finite argument pools (strings, label lists/maps of every cardinality class, f64 bucket lists/parameters, registry histories, families of every MetricType incl. mismatched payloads, failing writers); each call must return, and documented-invalid input must give Err.",
   note="memory-exhausting sizes excluded; APIs documented to panic excluded", ref="6 C17"),
 "C06": dict(engine="statespace+vsched", technique="explicit-state BFS (stateright) to a fixpoint over register/unregister histories re-executed on the real Registry vs. reference registry; plus exhaustive interleavings (vsched) of concurrent register/unregister/gather with a linearizability check",
   text="All histories of register/unregister over an 8 (thorough 11) collector pool with overlapping names/help/const/variable labels and multi-descriptor collectors are explored to a fixpoint (state = real registry dump + reference state); every call's result class and gather() after every call are compared with the reference; tracelessness of failed calls is judged behaviourally by exploring every continuation. In addition 2-3 threads issue register/unregister/gather concurrently on one registry under the vsched scheduler (all program pairs of <=2 calls and all 1-call triples); every interleaving must be linearizable w.r.t. the same reference. Two further BFS runs start from non-initial states: a registry holding 24 collectors (operations over the collectors with the smallest/largest/median descriptor id, an overlapping two-descriptor collector and a fresh one), and the same registry after a wave of 9000 (thorough 40000) registrations that were all undone.",
   note="collector pool is fixed; collisions of 64-bit ids and disagreement inside one collector's own descriptor list are not judged", ref="6 C06, 13"),
 "C12": dict(engine="statespace", technique="exhaustive enumeration of operation histories (stateright BFS, no state merging) on real local metrics vs. pending/flushed ledger; deeper merged-state BFS in addition",
   text="Every history up to depth 5 (vector models 4; thorough 6/5) over the operation menus of six local-metric models (incl. drop during unwinding, negative observations, clone, remove) is replayed on fresh real objects and compared with a ledger after every step; a second BFS merges equal ledger states and reaches depth 7.",
   note="<=3 live local handles, 2 keys, fixed update amounts (incl. a negative observation)", ref="6 C12"),
 "C01": dict(engine="vsched", technique="stateless exhaustive exploration of thread interleavings (sleep sets, unbounded) of the real code under a controlled scheduler + Wing-Gong linearizability check",
   text="For 4 counter flavours, all unordered pairs of <=2-operation programs and all triples of 1-operation programs over {inc_by, get, reset, local flush, collect, local clone+flush,...} are run under the vsched scheduler on every interleaving of their atomic/lock operations (sleep-set reduced, no preemption bound); plus contention drivers (one update against a run of five by another thread that then reads; three updaters inside the cell at once); the small drivers are also run with one deviation per execution: a compare_exchange_weak that fails spuriously once, or keeps failing for up to 64 rounds of its retry loop (storm); each execution's call/return history incl. quiescent reads must be linearizable w.r.t. a sequential counter.",
   note="sequentially consistent interleavings (exact for a single atomic cell); <=3 threads, <=2 ops per thread", ref="6 C01"),
 "C11": dict(engine="vsched", technique="stateless exhaustive exploration of thread interleavings (sleep sets, unbounded) of the real code under a controlled scheduler + Wing-Gong linearizability check",
   text="Same engine as C01 over 4 gauge flavours and the alphabet {add, sub, inc, dec, set, get, collect}: every interleaving of all program pairs (<=2 ops) and 1-op triples; plus contention drivers (an update against a run ending in set/get; exactly opposite add/sub amounts from four threads); one spurious weak-CAS failure or one storm of up to 64 of them per execution in the small drivers; histories must be linearizable w.r.t. a sequential gauge; integer gauges are additionally driven next to i64::MAX/MIN with exact wrapping arithmetic.",
   note="sequentially consistent interleavings (exact for a single atomic cell); <=3 threads, <=2 ops per thread", ref="6 C11"),
 "C18": dict(engine="statespace", technique="exhaustive enumeration of operation histories (stateright BFS) on real timers with a virtual clock vs. exactly-once reference",
   text="Every history up to depth 5 (thorough 6; merged-state BFS to depth 7/9) of start/observe_duration/stop_and_record/stop_and_discard/drop/drop-during-unwinding/drop-on-other-thread/observe_closure_duration (durations below, on and above the largest bucket bound, pending samples in the parent local histogram) over <=3 timers of a shared and of a local histogram, interleaved with forward and backward steps of a virtual clock, is replayed on the real code; after every step the histogram must have grown by exactly one observation of max(now-start,0) or by none.",
   note="clock is the verif time seam; coarse clock (nightly feature) not built", ref="6 C18"),
 "C02": dict(engine="vsched", technique="stateless exhaustive exploration of thread interleavings of the real histogram under a controlled scheduler (sleep sets unbounded / preemption-bounded) + snapshot-is-a-cut oracle + vector-clock happens-before audit of the hand-off",
   text="Observer/batcher/collector drivers (2-4 threads, 1-3 collections, direct / HistogramVec / Registry::gather collect paths, three start states) are run on every interleaving of their atomic, lock and call-boundary steps (Mode U unbounded with sleep sets where it completes, else all schedules with <=2 (thorough 3) preemptions); every snapshot must decode (distinct power-of-two observations, positive and, in the signed drivers, negative) to one set S consistent in count/sum/buckets, bounded by real time and prefix-closed per thread. Every execution is additionally audited with vector clocks built from the orderings the code passes: each draining access to a data cell must be happens-before-ordered with every other thread's access to it through the sync cells alone.",
   note="explored executions are SC interleavings; memory-model coverage is the hb audit of explored executions, not an enumeration of weak executions; Mode B drivers hold up to the stated preemption bound", ref="6 C02"),
 "C03": dict(engine="vsched", technique="stateless exhaustive exploration of thread interleavings of the real histogram under a controlled scheduler + conservation/growth/batch-atomicity/termination oracles",
   text="Drivers with >=3 collections, 1-2 collector threads, direct observers, local-batch flushers and get_sample_* readers are run on every interleaving (Mode U / preemption bound as C02): snapshots ordered in real time grow, a batch is in a snapshot entirely or not at all, the quiescent snapshot and get_sample_count/sum describe exactly all observations, no deadlock/livelock (also in the quiescent reads, which run under the scheduler), and a collector that spins does so only while an observe/flush call is in flight; NaN-observation drivers are judged by counts and termination; signed-observation drivers (negative and zero-crossing sums through drain, carry-over and local flush) are decoded by subset enumeration.",
   note="SC interleavings; <=4 threads; Mode B drivers hold up to the stated preemption bound", ref="6 C03"),
 "C10": dict(engine="vsched+statespace", technique="stateless exhaustive exploration of thread interleavings of the real vector (sleep sets / preemption bound) + Wing-Gong linearizability vs. map-of-children spec; exhaustive enumeration of sequential histories (stateright BFS)",
   text="(E1) all program pairs (<=2 ops, quick: total length <=3) all triples of 1-call programs and five 3-thread drivers over {get-or-create+update, remove, reset, collect, update through a kept handle} on 3 vector flavours (list and map request forms mixed) from 3 start states, on every interleaving of lock/atomic/call-boundary steps; histories incl. a quiescent collect must be linearizable w.r.t. a map key->child, child values decoded per child with interval semantics and a membership that stands still between a collection's snapshot instant and every update it shows; large-vector drivers (3..64 pre-existing children around powers of two, each to be shown exactly once with exact update accounting) and a churn driver (one collect against create/remove/create/update-old-child). (E2) every sequential history up to depth 5 (thorough 6) replayed against the reference after each step.",
   note="SC interleavings; 2 keys, <=3 threads; 3-thread HistogramVec drivers bounded to 2 preemptions in the quick tier", ref="6 C10"),
 "C07": dict(engine="enum", technique="bounded-exhaustive enumeration of collector subsets x registration orders x all hash-map iteration orders (realised, not sampled) x registry configs on the real Registry vs. reference gather",
   text="All subsets (size <=3, thorough 4) of a 16-collector pool of library metric types (incl. an empty vector, sibling vectors under one name, a name colliding with the registry prefix, equal-help collectors of different kinds, a 70-child family with prefix-related label values), every registration order, every registry-internal collect order (observed through a spy collector; registries rebuilt until all m! orders were seen), every iteration order of the common-label map and 6 registry configurations: each gather() equals the reference gather, also after one collector has been unregistered again, and all results for one registered set are identical.",
   note="pool and label values fixed; position of common labels inside the label list not prescribed, only its determinism", ref="6 C07"),
 "C14": dict(engine="enum", technique="bounded-exhaustive enumeration of collector subsets (incl. same-name different-kind collectors) x all orders on the real Registry; payload kind vs. declared type",
   text="Over all subsets (size <=3, thorough 4) of a 19-collector pool incl. three same-name collectors of different kinds, prefix-colliding names and equal-help collectors of different kinds, under plain / prefixed / labelled registries, all registration and iteration orders: every sample must carry exactly the payload of its family's declared type and the type must be order-independent. The pinned tree violates this for names registered under >=2 kinds (known finding F8, no small safe repair); any other violation is reported.",
   note="known finding keyed by 'family name registered under >=2 metric kinds'", ref="6 C14"),
 "C15": dict(engine="enum", technique="bounded-exhaustive enumeration of descriptors over adversarial pools, all pairs compared by grouping, all const-label map iteration orders realised",
   text="All ~25k descriptors over boundary-shifting name/value/help pools with <=2 constant and <=2 variable labels are built through Desc::new (constant-label map in every iteration order) and through Opts (every insertion order); id / dim_hash equality must coincide with structural-key equality over all pairs (grouping both ways), rebuilds must agree, also with other descriptors built in between (X, Y, X; X, HUGE, X with keys up to 140 KB; X on a fresh thread); plus descriptors whose neighbouring key fields are one 150-byte text cut at every position.",
   note="pool strings only; genuine 64-bit collisions exempt", ref="6 C15"),
 "C04": dict(engine="enum", technique="bounded-exhaustive enumeration of families/streams/call histories through all three text entry points, read back by an independent 0.0.4 parser",
   text="Every family of a bounded adversarial generator (4 types x every float class in every float slot x 12 bucket/quantile shapes x label shapes with every string of an escape-heavy pool x timestamps), all pairs/triples of a basis as streams, very large tokens and families at every stream position, a float sweep (short decimals with their 1-2 ulp neighbours; every binary exponent x 11 mantissa patterns; every power of ten with its neighbours), gathered registry output and encode-call histories (failing writer at every byte, refused family, repeated encode, mutate-then-re-encode) is encoded by encode / encode_utf8 / encode_to_string: identical bytes, UTF-8, append-only, and the independent parser returns exactly the encoded families.",
   note="string/float pools fixed; names valid; UNTYPED refused by the encoder (C17)", ref="6 C04"),
 "C13": dict(engine="enum", technique="bounded-exhaustive enumeration of families/streams/call histories through ProtobufEncoder, decoded by an independent wire decoder driven by proto_model.proto",
   text="The same generator over all five metric types, streams (incl. 64+ KiB families among small ones), a size sweep giving a family every encoded length from 40 to 16500 bytes (thorough also around 2^21), gathered output, refused families at every stream position and encode-call histories (failing writer at every byte offset, mutate through setters / public fields / clone then re-encode): the stream must frame exactly one length-delimited message per family and decode bit-exactly to the encoded families.",
   note="decoder in harness/src/pbwire.rs trusted; schema read from the repo's .proto at run time", ref="6 C13"),
 "C16": dict(engine="enum", technique="bounded-exhaustive enumeration of API scenarios, executed by one program compiled under both feature configurations; transcripts compared byte for byte",
   text="One scenario program is built twice against /repo (protobuf-backed and --no-default-features plain data model) and run over every scenario of a bounded grammar (collector subsets <=2 (thorough 3) of 15 kinds (incl. custom collectors with hand-built families: mismatching payloads, and samples with identical label sets differing only in set-vs-unset optional fields) x all combinations of 5 update scripts x 5 registry configurations x re-gather after unregister); the bit-exact dumps of gather() and the TextEncoder output must be identical.",
   note="scenario grammar fixed; only API common to both models is used", ref="6 C16"),
 "C20": dict(engine="enum", technique="bounded-exhaustive enumeration over generated programs: every macro arm x trailing comma written out as a call site, compiled against /repo and looped over a finite argument pool, compared with the explicit constructor",
   text="A generated crate (regenerated and rebuilt on every run) contains every arm of labels!/opts!/histogram_opts!/register_*!/register_*_with_registry! with and without trailing comma (114 call sites); each is run over 216 argument cases x 3 target registries: descriptor and buckets equal the explicit constructor's, the updated handle's sample appears in exactly the named registry, a second identical invocation evaluates to Err and leaves the first registration intact, and every macro argument expression is evaluated exactly once.",
   note="argument pools fixed; constructor panics inside the macros (invalid options) not judged", ref="6 C20"),
 "C19": dict(engine="enum", technique="bounded-exhaustive enumeration over generated programs: every declaration of a bounded grammar compiled (proc-macro expansion) against /repo and executed; children addressed vs. declared label values",
   text="A generated workspace (regenerated and rebuilt on every run) holds every declaration of the grammar (11 metric forms incl. local and auto-flush, 1-3 labels (thorough 4) x inline/renamed/label_enum/renamed-enum/aliased kinds x 1-2 (3) values, every permutation of the label names in the backing vector) plus probe declarations using each local/field name of the generated code as value identifier; every leaf is updated by a distinct power of two through the field path, get(enum) and try_get(str), local forms flushed, and vec.collect() must show exactly the declared children with exactly their amounts.",
   note="known finding: first-label values named inner/last_flush/flush_millis clash with fields of the generated auto-flush structs (compile error)", ref="6 C19"),
}

NOT_YET = "check not built yet in this round; planned per DESIGN.md section 6"

def main():
    commits = subprocess.run(["git", "-C", "/repo", "log", "--format=%h %s", "--grep=^verif:"],
                             capture_output=True, text=True).stdout.strip().splitlines()
    checks = []
    for pid in ALL:
        if pid not in CHECKS:
            continue
        c = CHECKS[pid]
        checks.append({
            "property_id": pid,
            "quick_cmd": "./check %s quick" % pid,
            "thorough_cmd": "./check %s thorough" % pid,
            "evidence_file": "/verif/evidence/%s.json" % pid,
            "replay_cmd_template": "./check %s quick --replay {path}" % pid,
            "engine": c["engine"],
            "level_claimed": {"category": "model_checking", "text": c["text"], "design_ref": "DESIGN.md section " + c["ref"]},
            "level_note": c["note"],
            "technique": c["technique"],
        })
    m = {
        "version": 1,
        "setup_cmd": "./setup.sh",
        "hooks": {
            "guard": "cargo feature \"verif\" of the prometheus crate",
            "enable": "harness depends on prometheus = { path = \"gen/repo\", features = [\"verif\"] }: a copy of /repo's current working tree refreshed by every check run (hooked_copy.py) in which std::sync / parking_lot paths are routed through crate::verif::{stdsync,plsync}",
            "baseline_off_cmd": "/verif/baseline.sh",
            "source_commits": [c.split()[0] for c in commits],
            "add_only": True,
        },
        "engines": [
            {"name": "vsched", "path": "harness/src/vsched.rs", "serves_properties": ["C01", "C02", "C03", "C10", "C11"],
             "kind_free_text": "stateless exhaustive scheduler over real OS threads driven through the verif hooks (sleep sets / preemption bounding), linearizability + snapshot oracles, hb audit"},
            {"name": "statespace", "path": "harness/src/bin", "serves_properties": ["C06", "C10", "C12", "C18"],
             "kind_free_text": "explicit-state BFS (stateright) whose transitions re-execute the real API; reference model in lock-step"},
            {"name": "enum", "path": "harness/src/bin", "serves_properties": ["C04", "C05", "C07", "C08", "C09", "C13", "C14", "C15", "C16", "C17", "C19", "C20"],
             "kind_free_text": "bounded-exhaustive enumeration of inputs/configurations/generated programs against independent reference implementations"},
        ],
        "checks": checks,
        "not_applicable": [{"property_id": p, "reason": NOT_YET} for p in ALL if p not in CHECKS],
        "notes": "All checks exit 0 (held / KNOWN-FINDING lines only), 1 (VIOLATION line), 2 (machinery failure). known_findings.json lists recorded and fixed findings.",
    }
    json.dump(m, open("/verif/MANIFEST.json", "w"), indent=1)
    print("MANIFEST.json:", len(checks), "checks,", len(m["not_applicable"]), "not_applicable")

main()
