// Support code of the generated C19 programs (included by every generated crate).

use prometheus::core::Collector;
use std::collections::BTreeMap;

pub type Key = Vec<(String, String)>;

/// Children of a vector: sorted label pairs -> value (counter / gauge value, histogram sum).
pub fn collect_map<C: Collector>(c: &C) -> BTreeMap<Key, f64> {
    let mut out = BTreeMap::new();
    for mf in c.collect() {
        for m in mf.get_metric() {
            let mut k: Key = m.get_label().iter().map(|l| (l.name().to_string(), l.value().to_string())).collect();
            k.sort();
            let v = match mf.get_field_type() {
                prometheus::proto::MetricType::COUNTER => m.get_counter().value(),
                prometheus::proto::MetricType::GAUGE => m.get_gauge().value(),
                prometheus::proto::MetricType::HISTOGRAM => m.get_histogram().get_sample_sum(),
                _ => f64::NAN,
            };
            if out.insert(k.clone(), v).is_some() {
                out.insert(vec![("DUPLICATE".to_string(), format!("{:?}", k))], v);
            }
        }
    }
    out
}

pub fn key(pairs: &[(&str, &str)]) -> Key {
    let mut k: Key = pairs.iter().map(|(a, b)| (a.to_string(), b.to_string())).collect();
    k.sort();
    k
}

/// Compare the collected children with the expectation; print one result line.
pub fn report(decl: &str, id: usize, got: BTreeMap<Key, f64>, exp: BTreeMap<Key, f64>, none_ok: bool) {
    if !none_ok {
        println!("BAD\t{}\ttry_get-undeclared-not-none\ttry_get of an undeclared value returned Some\t{}", id, decl);
        return;
    }
    if got == exp {
        println!("OK\t{}\t{}", id, exp.len());
        return;
    }
    let (sig, what) = if got.len() != exp.len() || got.keys().ne(exp.keys()) {
        ("children-differ", format!("vector holds children {:?}, declared paths address {:?}", got.keys().collect::<Vec<_>>(), exp.keys().collect::<Vec<_>>()))
    } else {
        let d: Vec<String> = exp.iter().filter(|(k, v)| got.get(*k) != Some(v)).map(|(k, v)| format!("{:?}: got {:?} expected {}", k, got.get(k), v)).collect();
        ("updates-reached-another-child", d.join("; "))
    };
    println!("BAD\t{}\t{}\t{}\t{}", id, sig, what.replace('\n', " ").replace('\t', " "), decl);
}
