//! C16 scenario program: compiled twice (protobuf-backed model / plain model),
//! prints a canonical transcript of every scenario of a bounded grammar. The
//! two transcripts must be byte-identical.

use prometheus::core::{Collector, Desc};
use prometheus::proto::{Metric, MetricFamily, MetricType};
use prometheus::{
    Counter, CounterVec, Encoder, Gauge, GaugeVec, Histogram, HistogramOpts, HistogramVec, IntCounter, IntGaugeVec, Opts, PullingGauge,
    Registry, TextEncoder,
};
use std::collections::HashMap;
use std::io::Write;

#[cfg(feature = "pb")]
fn cval(m: &Metric) -> f64 {
    m.get_counter().value()
}
#[cfg(feature = "pb")]
fn gval(m: &Metric) -> f64 {
    m.get_gauge().value()
}
#[cfg(not(feature = "pb"))]
fn cval(m: &Metric) -> f64 {
    m.get_counter().get_value()
}
#[cfg(not(feature = "pb"))]
fn gval(m: &Metric) -> f64 {
    m.get_gauge().get_value()
}

fn fb(v: f64) -> String {
    format!("{}#{:016x}", v, v.to_bits())
}

fn dump(mfs: &[MetricFamily], out: &mut String) {
    for mf in mfs {
        let t = match mf.get_field_type() {
            MetricType::COUNTER => "counter",
            MetricType::GAUGE => "gauge",
            MetricType::HISTOGRAM => "histogram",
            MetricType::SUMMARY => "summary",
            MetricType::UNTYPED => "untyped",
        };
        out.push_str(&format!(" F {:?} {:?} {}\n", mf.name(), mf.help(), t));
        for m in mf.get_metric() {
            let labels: Vec<(String, String)> = m.get_label().iter().map(|l| (l.name().to_string(), l.value().to_string())).collect();
            let h = m.get_histogram();
            let sm = m.get_summary();
            out.push_str(&format!(
                "  M {:?} ts={} c={} g={} h=({},{},{:?}) s=({},{},{:?})\n",
                labels,
                m.timestamp_ms(),
                fb(cval(m)),
                fb(gval(m)),
                h.get_sample_count(),
                fb(h.get_sample_sum()),
                h.get_bucket().iter().map(|b| (fb(b.upper_bound()), b.cumulative_count())).collect::<Vec<_>>(),
                sm.get_sample_count(),
                fb(sm.get_sample_sum()),
                sm.get_quantile().iter().map(|q| (fb(q.get_quantile()), fb(q.get_value()))).collect::<Vec<_>>()
            ));
        }
    }
}

const KINDS: usize = 15;
const SCRIPTS: usize = 5;

/// Build collector `kind` and apply update script `s` (<=3 operations).
fn build(kind: usize, s: usize) -> Box<dyn Collector> {
    let fl = [0.0, -0.0, 0.1 + 0.2, 1e300, f64::INFINITY];
    match kind {
        0 => {
            let c = Counter::new("ca", "help ca").unwrap();
            match s {
                0 => {}
                1 => c.inc(),
                2 => {
                    c.inc_by(0.1);
                    c.inc_by(0.2)
                }
                3 => c.inc_by(1e300),
                _ => {
                    c.inc();
                    c.reset();
                    c.inc_by(f64::INFINITY)
                }
            }
            Box::new(c)
        }
        1 => {
            let c = Counter::with_opts(Opts::new("cb", "h\u{e9}lp \"cb\"\n\\").const_label("x", "1").const_label("a", "\u{1F600}\n\"")).unwrap();
            for _ in 0..s {
                c.inc_by(0.5);
            }
            Box::new(c)
        }
        2 => {
            let g = Gauge::new("g", "help g").unwrap();
            match s {
                0 => g.set(-0.0),
                1 => {
                    g.set(1.5);
                    g.sub(1.5)
                }
                2 => g.add(f64::NAN),
                3 => {
                    g.inc();
                    g.dec();
                    g.dec()
                }
                _ => {
                    g.set(0.1);
                    g.add(0.2)
                }
            }
            Box::new(g)
        }
        3 => {
            let h = Histogram::with_opts(HistogramOpts::new("h", "help h").buckets(vec![-1.0, 0.0, 1.0, f64::INFINITY])).unwrap();
            match s {
                0 => {}
                1 => h.observe(0.5),
                2 => {
                    h.observe(-0.0);
                    h.observe(f64::NAN)
                }
                3 => {
                    h.observe(f64::INFINITY);
                    h.observe(1.0);
                    h.observe(-2.0)
                }
                _ => h.observe(5e-324),
            }
            Box::new(h)
        }
        4 => {
            let v = fl[s];
            Box::new(PullingGauge::new("pg", "help pg", Box::new(move || if v == 0.0 && s == 1 { -0.0 } else { v })).unwrap())
        }
        5 => {
            let v = CounterVec::new(Opts::new("cv", "help cv"), &["l"]).unwrap();
            let keys = ["b", "a", "ab", "\u{e9}\n\"\\", ""];
            for k in keys.iter().take(s) {
                v.with_label_values(&[k]).inc_by(1.0 + s as f64);
            }
            Box::new(v)
        }
        6 => {
            let v = GaugeVec::new(Opts::new("gv", "help gv").const_label("k", "c"), &["l2", "l1"]).unwrap();
            for i in 0..s {
                v.with_label_values(&[["b", "a", "a", ""][i], ["a", "b", "ab", ""][i]]).set(-(i as f64));
            }
            Box::new(v)
        }
        7 | 8 => {
            let c = Counter::with_opts(Opts::new("same", "help same").const_label("k", if kind == 7 { "1" } else { "2" })).unwrap();
            c.inc_by(s as f64);
            Box::new(c)
        }
        9 => {
            let c = IntCounter::new("ic", "help ic").unwrap();
            c.inc_by([0, 1, 2, 9007199254740993, u64::MAX][s]);
            Box::new(c)
        }
        10 => {
            let v = IntGaugeVec::new(Opts::new("igv", "help igv"), &["z", "y"]).unwrap();
            for i in 0..s {
                v.with_label_values(&[["1", "10", "2", "1"][i], ["x", "x", "x", "y"][i]]).set([i64::MIN, -1, 0, i64::MAX][i]);
            }
            Box::new(v)
        }
        12 => Box::new(Custom { desc: Desc::new("cust".into(), "help cust".into(), vec![], HashMap::new()).unwrap(), variant: s }),
        14 => Box::new(Defaults { desc: Desc::new("dflt".into(), "help dflt".into(), vec![], HashMap::new()).unwrap(), variant: s }),
        13 => {
            // histograms whose only bucket is the implicit +Inf one, observed or not (an all-default payload)
            match s {
                0 => Box::new(Histogram::with_opts(HistogramOpts::new("hinf", "help hinf").buckets(vec![f64::INFINITY])).unwrap()),
                1 => {
                    let h = Histogram::with_opts(HistogramOpts::new("hinf", "help hinf").buckets(vec![f64::INFINITY])).unwrap();
                    h.observe(0.0);
                    Box::new(h)
                }
                2 => {
                    let v = HistogramVec::new(HistogramOpts::new("hinf", "help hinf").buckets(vec![f64::INFINITY]), &["op"]).unwrap();
                    let _ = v.with_label_values(&["get"]);
                    Box::new(v)
                }
                3 => {
                    let v = HistogramVec::new(HistogramOpts::new("hinf", "help hinf").buckets(vec![f64::INFINITY]), &["op"]).unwrap();
                    let _ = v.with_label_values(&["get"]);
                    v.with_label_values(&["put"]).observe(-0.0);
                    Box::new(v)
                }
                _ => Box::new(Histogram::with_opts(HistogramOpts::new("hinf", "help hinf")).unwrap()),
            }
        }
        _ => {
            let v = HistogramVec::new(HistogramOpts::new("hv", "help hv").buckets(vec![0.25, 2.0]), &["l"]).unwrap();
            for i in 0..s.min(3) {
                let c = v.with_label_values(&[["a", "b", "a"][i]]);
                c.observe([0.25, 4.0, f64::NAN][i]);
                let l = c.local();
                l.observe(1.0);
            }
            Box::new(v)
        }
    }
}

/// A custom collector handing hand-built families to the registry: payloads that do not match the
/// declared type, histograms built without some optional fields, a summary, timestamps.
struct Custom {
    desc: Desc,
    variant: usize,
}

impl Collector for Custom {
    fn desc(&self) -> Vec<&Desc> {
        vec![&self.desc]
    }
    fn collect(&self) -> Vec<MetricFamily> {
        use prometheus::proto;
        let lp = |k: &str, v: &str| {
            let mut l = proto::LabelPair::default();
            l.set_name(k.to_string());
            l.set_value(v.to_string());
            l
        };
        let mut g = proto::Gauge::default();
        g.set_value(7.0);
        let mut c = proto::Counter::default();
        c.set_value(5.0);
        let mut mf = MetricFamily::default();
        mf.set_name("cust".to_string());
        mf.set_help("help cust".to_string());
        let mut m1 = Metric::from_label(vec![lp("q", "a")]);
        let mut m2 = Metric::from_label(vec![lp("q", "b")]);
        match self.variant {
            0 => {
                // declared counter; one counter sample, one gauge sample
                mf.set_field_type(MetricType::COUNTER);
                m1.set_counter(c);
                m2.set_gauge(g);
            }
            1 => {
                // declared gauge; counter payload, and a sample carrying both payloads and a timestamp
                mf.set_field_type(MetricType::GAUGE);
                m1.set_counter(c.clone());
                m2.set_counter(c);
                m2.set_gauge(g);
                m2.set_timestamp_ms(-5);
            }
            2 | 3 => {
                // histograms built by hand: without sample_count but with an explicit +Inf bucket; with explicit zero count
                mf.set_field_type(MetricType::HISTOGRAM);
                let bucket = |ub: f64, n: u64| {
                    let mut b = proto::Bucket::default();
                    b.set_upper_bound(ub);
                    b.set_cumulative_count(n);
                    b
                };
                let mut h1 = proto::Histogram::default();
                h1.set_sample_sum(2.5);
                h1.set_bucket(vec![bucket(1.0, 2), bucket(f64::INFINITY, 6)]);
                if self.variant == 3 {
                    h1.set_sample_count(0);
                }
                let mut h2 = proto::Histogram::default();
                h2.set_sample_count(4);
                h2.set_bucket(vec![bucket(0.5, 1)]);
                m1.set_histogram(h1);
                m2.set_histogram(h2);
            }
            _ => {
                mf.set_field_type(MetricType::SUMMARY);
                let mut s1 = proto::Summary::default();
                s1.set_sample_count(3);
                s1.set_sample_sum(-0.0);
                let mut q = proto::Quantile::default();
                q.set_quantile(0.5);
                q.set_value(f64::NAN);
                s1.set_quantile(vec![q]);
                m1.set_summary(s1);
                m2.set_summary(proto::Summary::default());
            }
        }
        mf.set_metric(vec![m2, m1]);
        vec![mf]
    }
}

/// A custom collector whose family holds several samples with *identical* label sets that differ only in whether an
/// optional field (timestamp, value, count, sum) was never set or was set explicitly to its default: the protobuf
/// model can tell the two apart (`has_*`), the plain model cannot, so nothing observable may depend on it.
struct Defaults {
    desc: Desc,
    variant: usize,
}

impl Collector for Defaults {
    fn desc(&self) -> Vec<&Desc> {
        vec![&self.desc]
    }
    fn collect(&self) -> Vec<MetricFamily> {
        use prometheus::proto;
        let lp = |k: &str, v: &str| {
            let mut l = proto::LabelPair::default();
            l.set_name(k.to_string());
            l.set_value(v.to_string());
            l
        };
        let gauge = |v: Option<f64>| {
            let mut g = proto::Gauge::default();
            if let Some(v) = v {
                g.set_value(v);
            }
            g
        };
        let counter = |v: Option<f64>| {
            let mut c = proto::Counter::default();
            if let Some(v) = v {
                c.set_value(v);
            }
            c
        };
        let labels = || if self.variant % 2 == 1 { vec![lp("q", "a")] } else { vec![] };
        let mut mf = MetricFamily::default();
        mf.set_name("dflt".to_string());
        mf.set_help("help dflt".to_string());
        let mut ms: Vec<Metric> = vec![];
        let mut push = |mut m: Metric, ts: Option<i64>| {
            if let Some(t) = ts {
                m.set_timestamp_ms(t);
            }
            ms.push(m);
        };
        match self.variant {
            0 | 1 => {
                mf.set_field_type(MetricType::GAUGE);
                for (v, ts) in [(Some(3.0), Some(3)), (Some(1.0), None), (Some(2.0), Some(0)), (Some(4.0), Some(-1)), (None, None), (Some(0.0), Some(0))] {
                    let mut m = Metric::from_label(labels());
                    m.set_gauge(gauge(v));
                    push(m, ts);
                }
            }
            2 => {
                mf.set_field_type(MetricType::COUNTER);
                for (v, ts) in [(Some(0.0), Some(0)), (None, None), (Some(5.0), Some(0)), (Some(6.0), None), (Some(7.0), Some(i64::MIN))] {
                    let mut m = Metric::from_label(labels());
                    m.set_counter(counter(v));
                    push(m, ts);
                }
            }
            3 => {
                mf.set_field_type(MetricType::HISTOGRAM);
                for (explicit, ts) in [(true, Some(0)), (false, None), (true, None), (false, Some(0))] {
                    let mut h = proto::Histogram::default();
                    if explicit {
                        h.set_sample_count(0);
                        h.set_sample_sum(0.0);
                        h.set_bucket(vec![]);
                    }
                    let mut m = Metric::from_label(labels());
                    m.set_histogram(h);
                    push(m, ts);
                }
            }
            _ => {
                mf.set_field_type(MetricType::SUMMARY);
                for (explicit, ts) in [(false, Some(0)), (true, None), (false, None), (true, Some(0))] {
                    let mut su = proto::Summary::default();
                    if explicit {
                        su.set_sample_count(0);
                        su.set_sample_sum(0.0);
                        su.set_quantile(vec![]);
                    }
                    let mut m = Metric::from_label(labels());
                    m.set_summary(su);
                    push(m, ts);
                }
            }
        }
        mf.set_metric(ms);
        vec![mf]
    }
}

fn configs() -> Vec<(Option<&'static str>, Vec<(&'static str, &'static str)>)> {
    vec![
        (None, vec![]),
        (Some("p"), vec![]),
        (None, vec![("aa", "1")]),
        (None, vec![("zz", "2"), ("aa", "1")]),
        (Some("p:q"), vec![("mm", "\n\"\\\u{e9}"), ("zz", "2"), ("aa", "1")]),
    ]
}

fn main() {
    let max: usize = std::env::args().nth(1).and_then(|s| s.parse().ok()).unwrap_or(2);
    let stdout = std::io::stdout();
    let mut w = std::io::BufWriter::new(stdout.lock());
    let mut n = 0u64;
    // subsets of kinds of size 1..=max (ascending), each member with every script
    let mut subsets: Vec<Vec<usize>> = vec![];
    for a in 0..KINDS {
        subsets.push(vec![a]);
        if max >= 2 {
            for b in a + 1..KINDS {
                subsets.push(vec![a, b]);
                if max >= 3 {
                    for c in b + 1..KINDS {
                        subsets.push(vec![a, b, c]);
                    }
                }
            }
        }
    }
    for members in &subsets {
        let combos = SCRIPTS.pow(members.len() as u32);
        for combo in 0..combos {
            // for triples only a diagonal of the script space (kept exhaustive for singles and pairs)
            if members.len() == 3 && (combo / 25 + combo / 5 % 5 + combo % 5) % 5 != 0 {
                continue;
            }
            let scripts: Vec<usize> = (0..members.len()).map(|i| combo / SCRIPTS.pow(i as u32) % SCRIPTS).collect();
            for (ci, (prefix, labels)) in configs().into_iter().enumerate() {
                n += 1;
                let mut out = format!("SCENARIO members={:?} scripts={:?} config={}\n", members, scripts, ci);
                let lm: Option<HashMap<String, String>> = if labels.is_empty() { None } else { Some(labels.iter().map(|(a, b)| (a.to_string(), b.to_string())).collect()) };
                let reg = Registry::new_custom(prefix.map(|s| s.to_string()), lm).unwrap();
                for (m, s) in members.iter().zip(&scripts) {
                    let r = reg.register(build(*m, *s));
                    out.push_str(&format!(" register {} -> {}\n", m, r.is_ok()));
                }
                let g = reg.gather();
                dump(&g, &mut out);
                match TextEncoder::new().encode_to_string(&g) {
                    Ok(t) => out.push_str(&format!(" TEXT {:?}\n", t)),
                    Err(e) => out.push_str(&format!(" TEXT-ERR {}\n", e)),
                }
                let mut buf = Vec::new();
                let r = TextEncoder::new().encode(&g, &mut buf);
                out.push_str(&format!(" BYTES {} {:016x}\n", r.is_ok(), buf.iter().fold(0xcbf29ce484222325u64, |h, b| (h ^ *b as u64).wrapping_mul(0x100000001b3))));
                // unregister the first member and gather again
                let r = reg.unregister(build(members[0], 0));
                out.push_str(&format!(" unregister {} -> {}\n", members[0], r.is_ok()));
                dump(&reg.gather(), &mut out);
                w.write_all(out.as_bytes()).unwrap();
            }
        }
    }
    writeln!(w, "END scenarios={}", n).unwrap();
}
