// Support code of the generated C20 program (included by gen/c20/src/main.rs).

use prometheus::core::{Collector, Desc};
use prometheus::*;
use std::collections::HashMap;

#[derive(Clone, Debug)]
pub struct Case {
    pub id: usize,
    pub name: String,
    pub help: &'static str,
    pub consts: Vec<(&'static str, &'static str)>,
    pub consts2: Vec<(&'static str, &'static str)>,
    pub label_names: Vec<&'static str>,
    pub buckets: Vec<f64>,
    /// 0 = default registry, 1 = plain custom, 2 = custom with prefix and labels
    pub target: usize,
}

thread_local! {
    static EV: std::cell::RefCell<[u32; 8]> = const { std::cell::RefCell::new([0; 8]) };
}

/// Counts evaluations of macro argument `k` (a function argument is evaluated exactly once).
pub fn ev<T>(k: usize, v: T) -> T {
    EV.with(|e| e.borrow_mut()[k] += 1);
    v
}
pub fn ev_reset() {
    EV.with(|e| *e.borrow_mut() = [0; 8]);
}
pub fn ev_counts() -> [u32; 8] {
    EV.with(|e| *e.borrow())
}
/// `Err` if one of the arguments listed in `used` was not evaluated exactly once.
pub fn ev_verdict(used: &[usize], counts: [u32; 8]) -> std::result::Result<(), (String, String)> {
    for &k in used {
        if counts[k] != 1 {
            let names = ["first argument (name or options)", "help", "label names / label maps", "buckets / second label map", "registry", "", "", ""];
            return Err(("argument-not-evaluated-exactly-once".to_string(), format!("the {} expression was evaluated {} times by the macro (a function argument is evaluated once)", names[k], counts[k])));
        }
    }
    Ok(())
}

pub struct Regs {
    pub plain: Registry,
    pub custom: Registry,
}

impl Regs {
    pub fn new() -> Regs {
        let mut l = HashMap::new();
        l.insert("zz_common".to_string(), "1".to_string());
        Regs { plain: Registry::new(), custom: Registry::new_custom(Some("pfx".into()), Some(l)).unwrap() }
    }
    pub fn target(&self, t: usize) -> &Registry {
        match t {
            0 => default_registry(),
            1 => &self.plain,
            _ => &self.custom,
        }
    }
}

pub fn cmap(v: &[(&'static str, &'static str)]) -> HashMap<&'static str, &'static str> {
    v.iter().cloned().collect()
}
pub fn smap(v: &[(&'static str, &'static str)]) -> HashMap<String, String> {
    v.iter().map(|(a, b)| (a.to_string(), b.to_string())).collect()
}

/// Uniform view of whatever a macro returned.
pub trait Probe {
    fn descs(&self) -> Vec<Desc>;
    fn bump(&self, amount: u32);
    fn bounds(&self) -> Option<Vec<f64>>;
    fn kind(&self) -> &'static str;
    fn boxed_collector(&self) -> Box<dyn Collector>;
}

fn hist_bounds(mfs: Vec<proto::MetricFamily>) -> Option<Vec<f64>> {
    mfs.first().and_then(|mf| mf.get_metric().first().map(|m| m.get_histogram().get_bucket().iter().map(|b| b.upper_bound()).collect()))
}

macro_rules! probe_simple {
    ($t:ty, $kind:expr, |$s:ident, $a:ident| $bump:expr) => {
        impl Probe for $t {
            fn descs(&self) -> Vec<Desc> {
                self.desc().into_iter().cloned().collect()
            }
            fn bump(&self, amount: u32) {
                let $s = self;
                let $a = amount;
                $bump;
            }
            fn bounds(&self) -> Option<Vec<f64>> {
                None
            }
            fn kind(&self) -> &'static str {
                $kind
            }
            fn boxed_collector(&self) -> Box<dyn Collector> {
                Box::new(self.clone())
            }
        }
    };
}
probe_simple!(Counter, "counter", |s, a| s.inc_by(a as f64));
probe_simple!(IntCounter, "counter", |s, a| s.inc_by(a as u64));
probe_simple!(Gauge, "gauge", |s, a| s.set(a as f64));
probe_simple!(IntGauge, "gauge", |s, a| s.set(a as i64));
probe_simple!(CounterVec, "counter", |s, a| s.with_label_values(&vec!["v"; s.desc()[0].variable_labels.len()]).inc_by(a as f64));
probe_simple!(IntCounterVec, "counter", |s, a| s.with_label_values(&vec!["v"; s.desc()[0].variable_labels.len()]).inc_by(a as u64));
probe_simple!(GaugeVec, "gauge", |s, a| s.with_label_values(&vec!["v"; s.desc()[0].variable_labels.len()]).set(a as f64));
probe_simple!(IntGaugeVec, "gauge", |s, a| s.with_label_values(&vec!["v"; s.desc()[0].variable_labels.len()]).set(a as i64));

impl Probe for Histogram {
    fn descs(&self) -> Vec<Desc> {
        self.desc().into_iter().cloned().collect()
    }
    fn bump(&self, amount: u32) {
        self.observe(amount as f64)
    }
    fn bounds(&self) -> Option<Vec<f64>> {
        hist_bounds(self.collect())
    }
    fn kind(&self) -> &'static str {
        "histogram"
    }
    fn boxed_collector(&self) -> Box<dyn Collector> {
        Box::new(self.clone())
    }
}
impl Probe for HistogramVec {
    fn descs(&self) -> Vec<Desc> {
        self.desc().into_iter().cloned().collect()
    }
    fn bump(&self, amount: u32) {
        self.with_label_values(&vec!["v"; self.desc()[0].variable_labels.len()]).observe(amount as f64)
    }
    fn bounds(&self) -> Option<Vec<f64>> {
        hist_bounds(self.collect())
    }
    fn kind(&self) -> &'static str {
        "histogram"
    }
    fn boxed_collector(&self) -> Box<dyn Collector> {
        Box::new(self.clone())
    }
}

pub fn boxed<T: Probe + 'static>(r: Result<T>) -> std::result::Result<Box<dyn Probe>, String> {
    match r {
        Ok(t) => Ok(Box::new(t)),
        Err(e) => Err(e.to_string()),
    }
}

pub fn desc_key(d: &Desc) -> String {
    format!(
        "fq={:?} help={:?} consts={:?} vars={:?}",
        d.fq_name,
        d.help,
        d.const_label_pairs.iter().map(|l| (l.name().to_string(), l.value().to_string())).collect::<Vec<_>>(),
        d.variable_labels
    )
}

/// Value of the sample of family `fq` in `reg` whose value equals `amount` (histograms: sample_sum).
pub fn has_sample(reg: &Registry, fq: &str, amount: u32) -> bool {
    reg.gather().iter().any(|mf| {
        mf.name() == fq
            && mf.get_metric().iter().any(|m| {
                let v = match mf.get_field_type() {
                    proto::MetricType::COUNTER => m.get_counter().value(),
                    proto::MetricType::GAUGE => m.get_gauge().value(),
                    proto::MetricType::HISTOGRAM => m.get_histogram().get_sample_sum(),
                    _ => f64::NAN,
                };
                v == amount as f64
            })
    })
}

pub fn has_family(reg: &Registry, fq: &str) -> bool {
    reg.gather().iter().any(|mf| mf.name() == fq)
}

pub struct SiteResult {
    pub site: &'static str,
    pub case: usize,
    pub verdict: std::result::Result<String, (String, String)>,
}

/// Judge one call: `got` is what the macro evaluated to, `again` what a second
/// identical invocation evaluated to, `explicit` the unregistered metric built
/// by the explicit constructor from the same arguments.
pub fn judge(site: &'static str, c: &Case, regs: &Regs, got: std::result::Result<Box<dyn Probe>, String>, again: std::result::Result<Box<dyn Probe>, String>, explicit: Box<dyn Probe>, amount: u32, evs: std::result::Result<(), (String, String)>) -> SiteResult {
    let v = (|| {
        evs?;
        let p = match got {
            Ok(p) => p,
            Err(e) => return Err(("valid-call-refused".to_string(), format!("first invocation evaluated to Err({})", e))),
        };
        let gd: Vec<String> = p.descs().iter().map(desc_key).collect();
        let ed: Vec<String> = explicit.descs().iter().map(desc_key).collect();
        if gd != ed {
            return Err(("descriptor-differs".to_string(), format!("macro built {:?}, explicit constructor builds {:?}", gd, ed)));
        }
        if p.kind() != explicit.kind() {
            return Err(("kind-differs".to_string(), format!("{} vs {}", p.kind(), explicit.kind())));
        }
        p.bump(amount);
        explicit.bump(amount);
        let (gb, eb) = (p.bounds(), explicit.bounds());
        if gb.as_ref().map(|b| b.iter().map(|x| x.to_bits()).collect::<Vec<_>>()) != eb.as_ref().map(|b| b.iter().map(|x| x.to_bits()).collect::<Vec<_>>()) {
            return Err(("buckets-differ".to_string(), format!("macro built buckets {:?}, explicit constructor {:?}", gb, eb)));
        }
        let fq = p.descs()[0].fq_name.clone();
        for t in 0..3 {
            let name = if t == 2 { format!("pfx_{}", fq) } else { fq.clone() };
            let present = has_sample(regs.target(t), &name, amount);
            if t == c.target && !present {
                return Err(("not-in-the-named-registry".to_string(), format!("after updating the returned handle, registry #{} has no sample {} = {} (the handle is not the registered metric, or it was registered elsewhere)", t, name, amount)));
            }
            if t != c.target && (present || has_family(regs.target(t), &name)) {
                return Err(("registered-in-another-registry".to_string(), format!("family {} also appears in registry #{} (target is #{})", name, t, c.target)));
            }
        }
        match again {
            Ok(_) => Err(("refusal-not-reported".to_string(), "a second invocation with the same descriptor evaluated to Ok".to_string())),
            Err(_) => {
                // the refused second call must not have disturbed the first registration
                let name = if c.target == 2 { format!("pfx_{}", fq) } else { fq.clone() };
                p.bump(amount + 1);
                if !has_sample(regs.target(c.target), &name, if p.kind() == "gauge" { amount + 1 } else { 2 * amount + 1 }) {
                    return Err(("refused-call-disturbed-the-registered-metric".to_string(), format!("after a refused second invocation the metric registered by the first one is no longer gathered (or no longer follows its handle) in registry #{}", c.target)));
                }
                Ok(format!("{}|{}|{:?}", p.kind(), gd.join(";"), gb))
            }
        }
    })();
    // keep the registries small: take the metric out again (equal descriptors identify it)
    let _ = regs.target(c.target).unregister(explicit.boxed_collector());
    SiteResult { site, case: c.id, verdict: v }
}
