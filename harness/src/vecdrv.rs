//! C10 drivers: concurrent use of one metric vector under engine E1, judged by
//! linearizability against a map from label values to children (children are
//! separate atomics: their values inside a collection are judged with interval
//! semantics and identify *which* child object a handle points to).

use crate::vsched::*;
use prometheus::core::Collector;
use prometheus::{CounterVec, Histogram, HistogramOpts, HistogramVec, IntCounter, IntCounterVec, Opts};
use std::collections::HashMap;

pub const KEYS: [&str; 2] = ["a", "b"];

#[derive(Clone, Debug, PartialEq, serde::Serialize, serde::Deserialize)]
pub enum VOp {
    /// fetch a handle for key index (with_label_values / get_metric_with) and keep it as the thread's current handle
    Get(usize),
    /// update through the thread's current handle
    Upd(f64),
    /// Get then Upd (two calls in the history)
    W(usize, f64),
    Remove(usize),
    Reset,
    Collect,
    /// update through the handle to the initial child "a" kept since setup
    HandleUpd(f64),
    /// fetch ballast child i (see `VecDriver::ballast`) and add 1 to it
    BTouch(usize),
}

#[derive(Clone, Copy, Debug, PartialEq, Eq, serde::Serialize, serde::Deserialize)]
pub enum VFlavour {
    IntCounterList,
    CounterMap,
    HistogramList,
}

#[derive(Clone, Copy, Debug, PartialEq, Eq, serde::Serialize, serde::Deserialize)]
pub enum Start {
    Empty,
    /// key "a" exists (child 0, pre-incremented), harness keeps a handle
    HasA,
    /// "a" was created (child 0, pre-incremented), then removed; the handle is kept
    RemovedA,
}

pub enum Handle {
    I(IntCounter),
    C(prometheus::Counter),
    H(Histogram),
}

impl Handle {
    fn upd(&self, d: f64) {
        match self {
            Handle::I(c) => c.inc_by(d as u64),
            Handle::C(c) => c.inc_by(d),
            Handle::H(h) => h.observe(d),
        }
    }
}

pub enum TheVec {
    I(IntCounterVec),
    C(CounterVec),
    H(HistogramVec),
}

pub struct VecShared {
    pub v: TheVec,
    pub kept: Option<Handle>,
    /// number of further children "z00", "z01", ... created in setup, each holding BALLAST_AMOUNT
    pub ballast: usize,
    /// number of BTouch operations in the driver's programs
    pub touches: usize,
    pub salt: usize,
}

pub const BALLAST_AMOUNT: f64 = 3.0;

/// Name of ballast child i. The children map is keyed by the hash of the label values and iterates in hash order, so
/// a different `salt` arranges the two program keys differently among the ballast children.
pub fn ballast_key(i: usize, salt: usize) -> String {
    if salt == 0 {
        format!("z{:02}", i)
    } else {
        format!("z{}_{:02}", (b'a' + (salt % 26) as u8) as char, i)
    }
}

pub const PRE_AMOUNT: f64 = 1024.0;

impl VecShared {
    pub fn new(f: VFlavour, start: Start) -> VecShared {
        VecShared::with_ballast(f, start, 0, 0, 0)
    }

    pub fn with_ballast(f: VFlavour, start: Start, ballast: usize, touches: usize, salt: usize) -> VecShared {
        let v = match f {
            VFlavour::IntCounterList => TheVec::I(IntCounterVec::new(Opts::new("v", "h"), &["l"]).unwrap()),
            VFlavour::CounterMap => TheVec::C(CounterVec::new(Opts::new("v", "h"), &["l"]).unwrap()),
            VFlavour::HistogramList => TheVec::H(HistogramVec::new(HistogramOpts::new("v", "h").buckets(vec![1.0]), &["l"]).unwrap()),
        };
        let mut sh = VecShared { v, kept: None, ballast, touches, salt };
        for i in 0..ballast {
            sh.get_key(&ballast_key(i, salt)).unwrap().upd(BALLAST_AMOUNT);
        }
        if start != Start::Empty {
            let h = sh.get(0).unwrap();
            h.upd(PRE_AMOUNT);
            sh.kept = Some(h);
            if start == Start::RemovedA {
                sh.remove(0).unwrap();
            }
        }
        sh
    }

    pub fn get(&self, k: usize) -> Result<Handle, String> {
        self.get_key(KEYS[k])
    }

    pub fn get_key(&self, key: &str) -> Result<Handle, String> {
        match &self.v {
            TheVec::I(v) => v.get_metric_with_label_values(&[key]).map(Handle::I).map_err(|e| e.to_string()),
            TheVec::C(v) => {
                let mut m = HashMap::new();
                m.insert("l", key);
                v.get_metric_with(&m).map(Handle::C).map_err(|e| e.to_string())
            }
            TheVec::H(v) => v.get_metric_with_label_values(&[key]).map(Handle::H).map_err(|e| e.to_string()),
        }
    }

    /// Removal deliberately uses the *other* request form than `get` (list vs. map),
    /// so that both forms must address the same child.
    pub fn remove(&self, k: usize) -> Result<(), String> {
        let key = KEYS[k];
        let mut m = HashMap::new();
        m.insert("l", key);
        match &self.v {
            TheVec::I(v) => v.remove(&m).map_err(|e| e.to_string()),
            TheVec::C(v) => v.remove_label_values(&[key]).map_err(|e| e.to_string()),
            TheVec::H(v) => v.remove(&m).map_err(|e| e.to_string()),
        }
    }

    pub fn reset(&self) {
        match &self.v {
            TheVec::I(v) => v.reset(),
            TheVec::C(v) => v.reset(),
            TheVec::H(v) => v.reset(),
        }
    }

    pub fn collect(&self) -> Val {
        let mfs = match &self.v {
            TheVec::I(v) => v.collect(),
            TheVec::C(v) => v.collect(),
            TheVec::H(v) => v.collect(),
        };
        if mfs.len() != 1 {
            return Val::S(format!("{} families", mfs.len()));
        }
        let mut kids = vec![];
        for m in mfs[0].get_metric() {
            if m.get_label().len() != 1 {
                return Val::S(format!("child with {} labels", m.get_label().len()));
            }
            let val = match &self.v {
                TheVec::H(_) => m.get_histogram().get_sample_sum(),
                _ => m.get_counter().value(),
            };
            kids.push((m.get_label()[0].value().to_string(), val));
        }
        kids.sort_by(|a, b| a.0.cmp(&b.0));
        if self.ballast > 0 {
            // the ballast children are judged right here: each exactly once, holding its setup amount plus at most the
            // touches the programs make (the exact final amounts are checked at quiescence by `check`)
            let (b, rest): (Vec<_>, Vec<_>) = kids.into_iter().partition(|(k, _)| k.starts_with('z'));
            let mut want: Vec<String> = (0..self.ballast).map(|i| ballast_key(i, self.salt)).collect();
            want.sort();
            let got: Vec<String> = b.iter().map(|(k, _)| k.clone()).collect();
            if got != want {
                return Val::S(format!("ballast children shown: {:?}, expected each of {} exactly once", got, self.ballast));
            }
            if let Some((k, v)) = b.iter().find(|(_, v)| *v < BALLAST_AMOUNT || *v > BALLAST_AMOUNT + self.touches as f64 || v.fract() != 0.0) {
                return Val::S(format!("ballast child {} shows {}", k, v));
            }
            let touched: f64 = b.iter().map(|(_, v)| *v - BALLAST_AMOUNT).sum();
            let mut rest = rest;
            rest.push(("~touched".into(), touched));
            return Val::Kids(rest);
        }
        Val::Kids(kids)
    }
}

pub struct VecDriver {
    pub flavour: VFlavour,
    pub start: Start,
    pub programs: Vec<Vec<VOp>>,
    /// children created before the threads start, besides what `start` says (programs of such drivers do not reset)
    pub ballast: usize,
    /// naming variant of the ballast children (see `ballast_key`)
    pub salt: usize,
}

impl VecDriver {
    pub fn from_spec(v: &serde_json::Value) -> Option<VecDriver> {
        Some(VecDriver {
            flavour: serde_json::from_value(v["flavour"].clone()).ok()?,
            start: serde_json::from_value(v["start"].clone()).ok()?,
            programs: serde_json::from_value(v["programs"].clone()).ok()?,
            ballast: v["ballast"].as_u64().unwrap_or(0) as usize,
            salt: v["salt"].as_u64().unwrap_or(0) as usize,
        })
    }
}

/// Expand W into Get + Upd.
pub fn expand(p: &[VOp]) -> Vec<VOp> {
    let mut out = vec![];
    for op in p {
        match op {
            VOp::W(k, d) => {
                out.push(VOp::Get(*k));
                out.push(VOp::Upd(*d));
            }
            o => out.push(o.clone()),
        }
    }
    out
}

impl Driver for VecDriver {
    type Shared = VecShared;
    fn name(&self) -> String {
        if self.ballast > 0 {
            format!("{:?} {:?}+{} children{} {:?}", self.flavour, self.start, self.ballast, if self.salt > 0 { format!(" (naming {})", self.salt) } else { String::new() }, self.programs)
        } else {
            format!("{:?} {:?} {:?}", self.flavour, self.start, self.programs)
        }
    }
    fn threads(&self) -> usize {
        self.programs.len()
    }
    fn setup(&self) -> VecShared {
        let touches = self.programs.iter().flatten().filter(|o| matches!(o, VOp::BTouch(_))).count();
        VecShared::with_ballast(self.flavour, self.start, self.ballast, touches, self.salt)
    }
    fn body(&self, t: usize, sh: &VecShared, rec: &Recorder) {
        let mut cur: Option<Handle> = None;
        for op in expand(&self.programs[t]) {
            match op {
                VOp::Get(k) => {
                    let mut got = None;
                    rec.call("get", Val::I(k as i64), || match sh.get(k) {
                        Ok(h) => {
                            got = Some(h);
                            Val::B(true)
                        }
                        Err(_) => Val::B(false),
                    });
                    cur = got;
                }
                VOp::Upd(d) => {
                    let h = cur.as_ref();
                    rec.call("upd", Val::F(d), || {
                        if let Some(h) = h {
                            h.upd(d);
                        }
                        Val::Unit
                    });
                }
                VOp::Remove(k) => {
                    rec.call("remove", Val::I(k as i64), || Val::B(sh.remove(k).is_ok()));
                }
                VOp::Reset => {
                    rec.call("reset", Val::Unit, || {
                        sh.reset();
                        Val::Unit
                    });
                }
                VOp::Collect => {
                    rec.call("collect", Val::Unit, || sh.collect());
                }
                VOp::HandleUpd(d) => {
                    rec.call("hupd", Val::F(d), || {
                        if let Some(h) = &sh.kept {
                            h.upd(d);
                        }
                        Val::Unit
                    });
                }
                VOp::BTouch(i) => {
                    rec.call("btouch", Val::I(i as i64), || match sh.get_key(&ballast_key(i, sh.salt)) {
                        Ok(h) => {
                            h.upd(1.0);
                            Val::B(true)
                        }
                        Err(_) => Val::B(false),
                    });
                }
                VOp::W(..) => unreachable!(),
            }
        }
    }

    fn epilogue(&self, sh: &VecShared, rec: &Recorder) {
        rec.call("collect", Val::Unit, || sh.collect());
    }

    fn spec(&self) -> serde_json::Value {
        serde_json::json!({"kind": "vec", "flavour": self.flavour, "start": self.start, "programs": self.programs, "ballast": self.ballast, "salt": self.salt})
    }

    fn check(&self, sh: &VecShared, x: &Execution) -> Result<String, (String, String)> {
        // the quiescent collect after all threads finished is made by the epilogue (thread 99)
        let mut calls = x.calls.clone();
        let show0 = calls.iter().map(|c| c.show()).collect::<Vec<_>>().join("; ");
        if self.ballast > 0 {
            // ballast bookkeeping: a collection shows at least the touches that returned before it started, at most those
            // that were invoked before it returned
            let touches: Vec<Call> = calls.iter().filter(|c| c.name == "btouch").cloned().collect();
            if let Some(t) = touches.iter().find(|t| t.ret != Val::B(true)) {
                return Err((format!("C10:ballast-child-unavailable:{:?}", self.flavour), format!("{} failed; history: {}", t.show(), show0)));
            }
            for c in calls.iter_mut().filter(|c| c.name == "collect") {
                if let Val::Kids(k) = &mut c.ret {
                    if let Some(i) = k.iter().position(|(key, _)| key == "~touched") {
                        let (_, seen) = k.remove(i);
                        let lo = touches.iter().filter(|t| t.precedes(c)).count() as f64;
                        let hi = touches.iter().filter(|t| !c.precedes(t)).count() as f64;
                        if seen < lo || seen > hi {
                            return Err((
                                format!("C10:ballast-updates-lost:{:?}", self.flavour),
                                format!("collection {} shows {} updates of the {} pre-existing children, between {} and {} expected; history: {}", c.show(), seen, sh.ballast, lo, hi, show0),
                            ));
                        }
                    }
                }
            }
        }
        let calls = calls;
        let show = || show0.clone();
        // structural checks that need no search
        for c in calls.iter().filter(|c| c.name == "collect") {
            match &c.ret {
                Val::Kids(k) => {
                    for w in k.windows(2) {
                        if w[0].0 == w[1].0 {
                            return Err((format!("C10:duplicate-label-values-in-collect:{:?}", self.flavour), format!("collection {} shows label value {:?} twice; history: {}", c.show(), w[0].0, show())));
                        }
                    }
                }
                other => return Err(("C10:collect-shape".into(), format!("collect returned {:?}", other))),
            }
        }
        let spec = VecSpec::new(self.start, &calls, self.programs.len());
        match linearizable(&spec, &calls) {
            Some(_) => {
                let mut s = String::new();
                for c in &calls {
                    if c.name == "collect" || c.name == "remove" {
                        s.push_str(&format!("{:?};", c.ret));
                    }
                }
                for a in &x.calls {
                    for b in &x.calls {
                        if a.thread != b.thread {
                            s.push(if a.precedes(b) { '<' } else { '.' });
                        }
                    }
                }
                Ok(s)
            }
            None => {
                // classify
                let fin = match &calls.last().unwrap().ret {
                    Val::Kids(k) => k.clone(),
                    _ => vec![],
                };
                let only_creates = calls.iter().all(|c| matches!(c.name.as_str(), "get" | "upd" | "collect" | "hupd"));
                let total: f64 = calls.iter().filter(|c| c.name == "upd").map(|c| c.arg.f()).sum();
                let seen: f64 = fin.iter().map(|(_, v)| *v).sum::<f64>();
                let class = if only_creates && self.start != Start::RemovedA && seen < total + if self.start == Start::HasA { PRE_AMOUNT } else { 0.0 } {
                    "lost-update-racing-creators"
                } else {
                    "not-linearizable"
                };
                Err((format!("C10:{}:{:?}", class, self.flavour), format!("history not linearizable w.r.t. a map of children ({:?} start): {}", self.start, show())))
            }
        }
    }
}

// ------------------------------------------------------------ specification

/// Sequential specification: map key -> child id; children are identified by the
/// set of updates they received (distinct powers of two).
pub struct VecSpec {
    start: Start,
    /// for every call index: if it is an update, its amount
    upd_amount: Vec<Option<f64>>,
    /// calls (copied for real-time queries)
    calls: Vec<Call>,
    nthreads: usize,
}

#[derive(Clone, Hash, PartialEq, Eq, Debug)]
pub struct VState {
    map: [Option<u8>; 2],
    nchildren: u8,
    /// current handle per thread (index nthreads = kept handle)
    handle: Vec<Option<u8>>,
    /// child each update call was applied to (by call index)
    target: Vec<Option<u8>>,
    /// child a collection claimed for a not-yet-linearized update
    claims: Vec<Option<u8>>,
}

impl VecSpec {
    pub fn new(start: Start, calls: &[Call], nthreads: usize) -> VecSpec {
        VecSpec {
            start,
            upd_amount: calls.iter().map(|c| if c.name == "upd" || c.name == "hupd" { Some(c.arg.f()) } else { None }).collect(),
            calls: calls.to_vec(),
            nthreads,
        }
    }
    fn index_of(&self, call: &Call) -> usize {
        self.calls.iter().position(|c| c.inv == call.inv && c.thread == call.thread).unwrap()
    }
}

impl SeqSpec for VecSpec {
    type State = VState;
    fn init(&self) -> VState {
        let n = self.calls.len();
        let mut st = VState { map: [None, None], nchildren: 0, handle: vec![None; self.nthreads + 1], target: vec![None; n], claims: vec![None; n] };
        match self.start {
            Start::Empty => {}
            Start::HasA => {
                st.map[0] = Some(0);
                st.nchildren = 1;
                st.handle[self.nthreads] = Some(0);
            }
            Start::RemovedA => {
                st.nchildren = 1;
                st.handle[self.nthreads] = Some(0);
            }
        }
        st
    }
    fn apply(&self, st: &VState, call: &Call) -> Option<VState> {
        let mut s = st.clone();
        let idx = self.index_of(call);
        let t = if call.thread == 99 { 0 } else { call.thread };
        // A collection reads the children's values while the set of children stands still: between the instant its set of
        // children was current and the instant an update it shows took effect, no child is created or removed. (An update
        // a collection claimed but which has not been linearized yet is such an open window.)
        let open_window = (0..s.claims.len()).any(|i| s.claims[i].is_some() && s.target[i].is_none());
        let structural = match (call.name.as_str(), &call.arg) {
            ("get", Val::I(k)) => s.map[*k as usize].is_none(),
            ("remove", Val::I(k)) => s.map[*k as usize].is_some(),
            ("reset", _) => s.map.iter().any(|m| m.is_some()),
            _ => false,
        };
        if open_window && structural {
            return None;
        }
        match call.name.as_str() {
            "get" => {
                let k = match call.arg {
                    Val::I(k) => k as usize,
                    _ => return None,
                };
                if call.ret != Val::B(true) {
                    return None;
                }
                if s.map[k].is_none() {
                    s.map[k] = Some(s.nchildren);
                    s.nchildren += 1;
                }
                s.handle[t] = s.map[k];
                Some(s)
            }
            "upd" | "hupd" => {
                let h = if call.name == "hupd" { s.handle[self.nthreads] } else { s.handle[t] };
                let c = h?;
                if let Some(cl) = s.claims[idx] {
                    if cl != c {
                        return None;
                    }
                }
                s.target[idx] = Some(c);
                Some(s)
            }
            "remove" => {
                let k = match call.arg {
                    Val::I(k) => k as usize,
                    _ => return None,
                };
                let ok = s.map[k].is_some();
                if call.ret != Val::B(ok) {
                    return None;
                }
                s.map[k] = None;
                Some(s)
            }
            "reset" => {
                s.map = [None, None];
                Some(s)
            }
            "btouch" => Some(s),
            "collect" => {
                let kids = match &call.ret {
                    Val::Kids(k) => k,
                    _ => return None,
                };
                let exp_keys: Vec<&str> = (0..2).filter(|k| s.map[*k].is_some()).map(|k| KEYS[k]).collect();
                let got_keys: Vec<&str> = kids.iter().map(|(k, _)| k.as_str()).collect();
                if exp_keys != got_keys {
                    return None;
                }
                for (key, val) in kids {
                    let k = KEYS.iter().position(|x| x == key)?;
                    let c = s.map[k]?;
                    // decode the value into update calls (+ the prelude amount of child 0)
                    let mut rest = *val;
                    if rest >= PRE_AMOUNT {
                        if c != 0 || self.start == Start::Empty {
                            return None;
                        }
                        rest -= PRE_AMOUNT;
                    } else if c == 0 && self.start != Start::Empty {
                        return None; // child 0 always carries the prelude amount
                    }
                    let mut amounts: Vec<(usize, f64)> = self.upd_amount.iter().enumerate().filter_map(|(i, a)| a.map(|a| (i, a))).collect();
                    amounts.sort_by(|a, b| b.1.partial_cmp(&a.1).unwrap());
                    let mut inside = vec![false; self.calls.len()];
                    for (i, a) in amounts {
                        if rest >= a {
                            rest -= a;
                            inside[i] = true;
                        }
                    }
                    if rest != 0.0 {
                        return None;
                    }
                    for (i, a) in self.upd_amount.iter().enumerate() {
                        if a.is_none() {
                            continue;
                        }
                        let u = &self.calls[i];
                        if inside[i] {
                            if call.precedes(u) {
                                return None; // an update from the future
                            }
                            match s.target[i] {
                                Some(tc) => {
                                    if tc != c {
                                        return None;
                                    }
                                }
                                None => {
                                    if let Some(cl) = s.claims[i] {
                                        if cl != c {
                                            return None;
                                        }
                                    }
                                    s.claims[i] = Some(c);
                                }
                            }
                        } else if u.precedes(call) && s.target[i] == Some(c) {
                            return None; // a completed update to this child is missing
                        }
                    }
                }
                Some(s)
            }
            _ => None,
        }
    }
}
