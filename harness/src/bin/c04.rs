//! C04 — text exposition is a faithful, parseable rendering of the gathered state.
//! E3: every family of a bounded adversarial generator (plus gathered output of
//! the registry enumeration, multi-family streams and encode-call histories) is
//! encoded through all three entry points and read back with an independent
//! 0.0.4 parser.

use prometheus::proto::MetricFamily;
use prometheus::{Encoder, TextEncoder};
use serde_json::json;
use verif_harness::gatherenum;
use verif_harness::refmodel::*;
use verif_harness::textparse::*;
use verif_harness::*;

struct FailAfter(usize);
impl std::io::Write for FailAfter {
    fn write(&mut self, buf: &[u8]) -> std::io::Result<usize> {
        if self.0 == 0 {
            return Err(std::io::Error::new(std::io::ErrorKind::BrokenPipe, "closed"));
        }
        let n = buf.len().min(self.0);
        self.0 -= n;
        Ok(n)
    }
    fn flush(&mut self) -> std::io::Result<()> {
        Ok(())
    }
}

/// Encode through the three entry points; check equality, UTF-8 and append-only.
fn encode_all(fams: &[MetricFamily]) -> Result<String, (String, String)> {
    let enc = TextEncoder::new();
    let mut v: Vec<u8> = Vec::new();
    enc.encode(fams, &mut v).map_err(|e| ("encode-error".to_string(), format!("encode failed: {}", e)))?;
    let s = String::from_utf8(v.clone()).map_err(|_| ("not-utf8".to_string(), "encode produced invalid UTF-8".to_string()))?;
    let mut s2 = String::new();
    enc.encode_utf8(fams, &mut s2).map_err(|e| ("encode-error".to_string(), format!("encode_utf8 failed: {}", e)))?;
    let s3 = enc.encode_to_string(fams).map_err(|e| ("encode-error".to_string(), format!("encode_to_string failed: {}", e)))?;
    if s2 != s || s3 != s {
        return Err(("entry-points-differ".into(), format!("encode / encode_utf8 / encode_to_string differ: {:?} / {:?} / {:?}", s, s2, s3)));
    }
    // append-only on pre-filled outputs
    let prefix = "pre-filled \u{e9}\n";
    let mut pv = prefix.as_bytes().to_vec();
    enc.encode(fams, &mut pv).map_err(|e| ("encode-error".to_string(), format!("{}", e)))?;
    let mut ps = prefix.to_string();
    enc.encode_utf8(fams, &mut ps).map_err(|e| ("encode-error".to_string(), format!("{}", e)))?;
    let want = format!("{}{}", prefix, s);
    if pv != want.as_bytes() || ps != want {
        return Err(("not-append-only".into(), format!("pre-filled output was not extended by exactly the fresh rendering: {:?}", ps)));
    }
    Ok(s)
}

/// Round-trip check of a stream of families.
fn round_trip(fams: &[RFamily]) -> Result<String, (String, String)> {
    let protos: Vec<MetricFamily> = fams.iter().map(|f| f.to_proto()).collect();
    round_trip_protos(&protos, fams)
}

fn round_trip_protos(protos: &[MetricFamily], fams: &[RFamily]) -> Result<String, (String, String)> {
    let text = encode_all(protos)?;
    let doc = parse_document(&text).map_err(|e| ("unparseable".to_string(), format!("{} in {:?}", e.0, text)))?;
    let got = to_families(&doc).map_err(|e| ("unparseable".to_string(), format!("{} in {:?}", e.0, text)))?;
    let exp: Vec<RFamily> = fams.iter().map(expected_view).collect();
    if got.len() != exp.len() {
        return Err(("family-count".into(), format!("{} families parsed, {} encoded: {:?}", got.len(), exp.len(), text)));
    }
    for (g, e) in got.iter().zip(&exp) {
        if g.key(true) != e.key(true) {
            let class = if g.name != e.name {
                "name"
            } else if g.help != e.help {
                "help"
            } else if g.typ != e.typ {
                "type"
            } else if g.metrics.len() != e.metrics.len() {
                "sample-count"
            } else if g.metrics.iter().zip(&e.metrics).any(|(a, b)| a.labels != b.labels) {
                "labels"
            } else if g.metrics.iter().zip(&e.metrics).any(|(a, b)| a.ts != b.ts) {
                "timestamp"
            } else {
                "value"
            };
            return Err((format!("round-trip:{}", class), format!("parsed {} but encoded {} ; text {:?}", g.key(true), e.key(true), text)));
        }
    }
    Ok(text)
}

fn main() {
    let args = parse_args();
    quiet_panics();
    let mut rep = Report::new("C04", &args);
    let thorough = args.tier == Tier::Thorough;
    if let Some(p) = &args.replay {
        let doc = read_replay(p);
        if let Some(fs) = doc["families"].as_array() {
            let fams: Vec<RFamily> = fs.iter().map(RFamily::from_json).collect();
            let r1 = round_trip(&fams);
            let r2 = round_trip(&fams);
            println!("replay: {:?}", r1.as_ref().map(|t| t.len()));
            if format!("{:?}", r1) != format!("{:?}", r2) {
                std::process::exit(2);
            }
            if r1.is_err() {
                println!("VIOLATION property=C04 replay={}", p);
                std::process::exit(1);
            }
            std::process::exit(0);
        }
    }
    let types = [RType::Counter, RType::Gauge, RType::Histogram, RType::Summary];
    rep.rule = format!("families from a bounded generator: for each of counter/gauge/histogram/summary every value of the float pool {:?} in every float slot (sample value, sum, bucket bound, quantile) x 12 bucket/quantile shapes (0-2 buckets, explicit +Inf bound, huge counts), label shapes of 0-2 pairs (thorough: 3) with every assignment from the string pool {:?} also used as help, every timestamp of {:?}; all ordered pairs and triples of a 6-family basis as streams; 20 streams placing a very large family (a 2 KiB token, a 64+ KiB family of 900 samples, a 400-bucket histogram) at every position among small ones; a float sweep (every short decimal k/10^d, k<=2000, d<=4, thorough k<=20000, d<=6, both signs, with its neighbours 1 and 2 ulp away; every binary exponent 0..2046 x 11 mantissa patterns and every power of ten 1e-323..1e308 with its neighbours, both signs); a size sweep (help text and label value of 0..8300 bytes, thorough also around 16K/32K/64K, ending in an escape, a multi-byte character and a quote); everything gather() returns over the registry enumeration (subsets <=2, all orders, all configs); call histories (failed encode then encode, repeated encode, mutate then re-encode). Each stream: 3 entry points byte-identical, UTF-8, append-only, independent 0.0.4 parser reads back exactly the same families. distinct = distinct encoded texts", floats().iter().map(|f| f64s(*f)).collect::<Vec<_>>(), STRS, TIMESTAMPS);
    rep.bounds = json!({"strings": STRS.len(), "floats": floats().len(), "labels": if thorough {3} else {2}});

    let mut run = |rep: &mut Report, fams: &[RFamily], group: &str| {
        rep.evaluations += 1;
        rep.transitions += 6;
        match watchdog::case(|| format!("text round trip of {:?}", fams.iter().map(|f| f.key(true)).collect::<Vec<_>>()), || catch(|| round_trip(fams))) {
            Ok(Ok(text)) => {
                rep.outcome(&text);
                if rep.evaluations % 3001 == 1 {
                    rep.sample(json!({"group": group, "families": fams.iter().map(|f| f.to_json()).collect::<Vec<_>>(), "text": text}));
                }
            }
            Ok(Err((class, detail))) => {
                let sig = format!("{}:{}:{:?}", class, group, fams[0].typ);
                rep.violation(sig, detail.clone(), json!({"engine":"enum","group": group, "families": fams.iter().map(|f| f.to_json()).collect::<Vec<_>>(), "detail": detail}));
            }
            Err(p) => {
                rep.violation(format!("panic:{}", group), format!("encoder panicked: {}", p), json!({"engine":"enum","group": group, "families": fams.iter().map(|f| f.to_json()).collect::<Vec<_>>(), "detail": p}));
            }
        }
    };

    // 1. generated single-family streams
    for f in gen_families(if thorough { 1 } else { 0 }, &types) {
        run(&mut rep, std::slice::from_ref(&f), "generated");
    }
    // 2. multi-family framing
    // streams mixing small families with very large ones
    for st in big_streams() {
        run(&mut rep, &st, "big-stream");
    }
    // size sweep: a help text and a label value grown byte by byte, ending in an escape, a multi-byte character and a
    // quote, between two small families — every offset at which an escape or a character can straddle a buffer edge
    {
        let small = basis_families();
        let mut ranges: Vec<std::ops::RangeInclusive<usize>> = vec![0..=8300];
        if thorough {
            ranges.extend([16300..=16500, 32700..=32900, 65400..=65700]);
        }
        for r in ranges {
            for k in r {
                let tok = format!("{}\\\n\u{e9}\"x", "h".repeat(k));
                let mut m = RMetric { gauge: Some(1.5), ..Default::default() };
                m.labels = vec![("l".into(), tok.clone())];
                let f = RFamily { name: "m_sweep".into(), help: tok, typ: RType::Gauge, metrics: vec![m] };
                let fams = [RFamily { name: "a_first".into(), ..small[0].clone() }, f, RFamily { name: "z_last".into(), ..small[1].clone() }];
                rep.evaluations += 1;
                rep.transitions += 6;
                match watchdog::case(|| format!("text size sweep, token of {} bytes", k), || catch(|| round_trip(&fams))) {
                    Ok(Ok(text)) => rep.outcome(format!("sweep:{}:{}", text.len() / 4096, k.min(2))),
                    Ok(Err((class, detail))) => {
                        let d: String = detail.chars().take(300).collect();
                        rep.violation(format!("{}:size-sweep", class), format!("token of {}+6 bytes as help and label value: {}", k, d), json!({"engine":"enum","group": "size-sweep", "families": fams.iter().map(|f| f.to_json()).collect::<Vec<_>>(), "detail": d}));
                    }
                    Err(p) => rep.violation("panic:size-sweep".to_string(), format!("encoder panicked: {}", p), json!({"engine":"enum","group": "size-sweep", "families": fams.iter().map(|f| f.to_json()).collect::<Vec<_>>(), "detail": p})),
                }
            }
        }
    }
    // float sweep: every short decimal k/10^d (k <= 2000, d <= 4; thorough k <= 20000, d <= 6), negated too, and its
    // neighbours 1 and 2 ulp away, as gauge values — a rendering shortcut keyed on "is a short decimal" shows here
    {
        let (kmax, dmax) = if thorough { (20000u64, 6u32) } else { (2000u64, 4u32) };
        let mut vals: Vec<f64> = vec![];
        for d in 0..=dmax {
            for k in 1..=kmax {
                let v = k as f64 / 10f64.powi(d as i32);
                for delta in [-2i64, -1, 0, 1, 2] {
                    let w = f64::from_bits((v.to_bits() as i64 + delta) as u64);
                    vals.push(w);
                    vals.push(-w);
                }
            }
        }
        // magnitude sweep: every binary exponent (subnormals included) with a set of mantissa patterns, and every power of
        // ten 1e-323..1e308 with its neighbours — a rendering shortcut keyed on the magnitude (exponent notation with too
        // few digits, a fixed-width buffer) shows here
        for e in 0u64..=2046 {
            for m in [0u64, 1, 2, 0xF_FFFF_FFFF_FFFF, 0xF_FFFF_FFFF_FFFE, 0x8_0000_0000_0000, 0x7_FFFF_FFFF_FFFF, 0x5_5555_5555_5555, 0xA_AAAA_AAAA_AAAA, 0x3_C0CA_428C_59FB, 0x9_21FB_5444_2D18] {
                let w = f64::from_bits(e << 52 | m);
                vals.push(w);
                vals.push(-w);
            }
        }
        for p10 in -323i32..=308 {
            let v: f64 = format!("1e{}", p10).parse().unwrap();
            for delta in [-2i64, -1, 0, 1, 2] {
                let w = f64::from_bits((v.to_bits() as i64 + delta).max(1) as u64);
                if w.is_finite() {
                    vals.push(w);
                    vals.push(-w);
                }
            }
        }
        vals.sort_by(|a, b| a.to_bits().cmp(&b.to_bits()));
        vals.dedup_by(|a, b| a.to_bits() == b.to_bits());
        for (ci, chunk) in vals.chunks(5000).enumerate() {
            let metrics: Vec<RMetric> = chunk.iter().enumerate().map(|(i, v)| RMetric { gauge: Some(*v), labels: vec![("i".into(), format!("{}", i))], ..Default::default() }).collect();
            let f = RFamily { name: "fsweep".into(), help: "h".into(), typ: RType::Gauge, metrics };
            rep.evaluations += chunk.len() as u64;
            rep.transitions += 6;
            match watchdog::case(|| format!("float sweep chunk {}", ci), || catch(|| round_trip(std::slice::from_ref(&f)))) {
                Ok(Ok(_)) => rep.outcome(format!("fsweep:{}", ci % 4)),
                Ok(Err((class, detail))) => {
                    // find one offending value for the replay file
                    let bad = chunk.iter().find(|v| {
                        let one = RFamily { name: "fsweep".into(), help: "h".into(), typ: RType::Gauge, metrics: vec![RMetric { gauge: Some(**v), ..Default::default() }] };
                        round_trip(std::slice::from_ref(&one)).is_err()
                    });
                    let one = RFamily { name: "fsweep".into(), help: "h".into(), typ: RType::Gauge, metrics: vec![RMetric { gauge: Some(*bad.unwrap_or(&chunk[0])), ..Default::default() }] };
                    let d: String = detail.chars().take(200).collect();
                    rep.violation(format!("{}:float-sweep", class), format!("gauge value {:?} (bits {:016x}) does not read back bit-exactly: {}", bad, bad.map(|b| b.to_bits()).unwrap_or(0), d), json!({"engine":"enum","group": "float-sweep", "families": [one.to_json()], "detail": d}));
                    break;
                }
                Err(p) => {
                    rep.violation("panic:float-sweep".to_string(), format!("encoder panicked: {}", p), json!({"engine":"enum","group": "float-sweep", "detail": p}));
                    break;
                }
            }
        }
    }
    let basis = basis_families();
    for a in &basis {
        for b in &basis {
            run(&mut rep, &[a.clone(), b.clone()], "stream-pair");
            for c in &basis {
                if thorough || (a.name <= c.name) {
                    run(&mut rep, &[a.clone(), b.clone(), c.clone()], "stream-triple");
                }
            }
        }
    }
    // 3. what gather() really returns
    let max = if thorough { 3 } else { 2 };
    for members in combi::subsets(9, 1, max) {
        for cfg in gatherenum::configs() {
            let mut gathers = 0;
            let mut results: Vec<Vec<MetricFamily>> = vec![];
            if let Err(e) = gatherenum::enumerate_orders(&members, &cfg, false, &mut gathers, |r| results.push(r.result.clone())) {
                eprintln!("MACHINERY: {}", e);
                std::process::exit(2);
            }
            for protos in results {
                let fams: Vec<RFamily> = protos.iter().map(RFamily::from_proto).collect();
                rep.evaluations += 1;
                rep.transitions += 6;
                match catch(|| round_trip_protos(&protos, &fams)) {
                    Ok(Ok(t)) => rep.outcome(&t),
                    Ok(Err((class, detail))) => rep.violation(format!("{}:gathered", class), detail.clone(), json!({"engine":"enum","group":"gathered","members": members, "config": format!("{:?}", cfg), "families": fams.iter().map(|f| f.to_json()).collect::<Vec<_>>(), "detail": detail})),
                    Err(p) => rep.violation("panic:gathered", p.clone(), json!({"detail": p})),
                }
            }
        }
    }
    // 4. call histories on one thread
    let enc = TextEncoder::new();
    let stream: Vec<MetricFamily> = basis.iter().map(|f| f.to_proto()).collect();
    let fresh = enc.encode_to_string(&stream).unwrap_or_default();
    let bad_name = RFamily { name: "".into(), ..basis[0].clone() }.to_proto();
    let no_metric = RFamily { metrics: vec![], ..basis[1].clone() }.to_proto();
    let mut history = |rep: &mut Report, what: &str, first: &dyn Fn()| {
        rep.evaluations += 1;
        rep.transitions += 4;
        first();
        let mut v = Vec::new();
        let r1 = enc.encode(&stream, &mut v).map_err(|e| e.to_string());
        let mut s = String::new();
        let r2 = enc.encode_utf8(&stream, &mut s).map_err(|e| e.to_string());
        let r3 = enc.encode_to_string(&stream).map_err(|e| e.to_string());
        let ok = r1.is_ok() && r2.is_ok() && v == fresh.as_bytes() && s == fresh && r3.as_deref() == Ok(fresh.as_str());
        if ok {
            rep.outcome(format!("history:{}", what));
        } else {
            rep.violation(format!("history:{}", what.split(' ').next().unwrap()), format!("after {}, encoding the same stream again gave a different text: {:?} vs fresh {:?}", what, String::from_utf8_lossy(&v), fresh), json!({"engine":"enum","group":"history","history": what, "detail": "stale or different output after an earlier encode call"}));
        }
    };
    for k in 0..fresh.len() + 1 {
        let st = stream.clone();
        history(&mut rep, &format!("failing-writer after {} bytes", k), &|| {
            let _ = TextEncoder::new().encode(&st, &mut FailAfter(k));
        });
    }
    for (what, fam) in [("invalid-family empty name", bad_name.clone()), ("invalid-family no metrics", no_metric.clone())] {
        for pos in 0..3 {
            let mut st = stream[..pos].to_vec();
            st.push(fam.clone());
            st.extend_from_slice(&stream[pos..]);
            let st2 = st.clone();
            history(&mut rep, &format!("{} at position {}", what, pos), &|| {
                let e = TextEncoder::new();
                let _ = e.encode(&st2, &mut Vec::new());
                let _ = e.encode_utf8(&st2, &mut String::new());
                let _ = e.encode_to_string(&st2);
            });
        }
    }
    history(&mut rep, "repeated successful encode", &|| {
        let _ = TextEncoder::new().encode_to_string(&stream);
    });
    // mutate, then re-encode: the text must follow the mutation
    for (i, f) in basis.iter().enumerate() {
        let mut p = f.to_proto();
        let _ = enc.encode_to_string(std::slice::from_ref(&p));
        p.set_name(format!("renamed_{}", i));
        p.set_help(format!("{}{}", f.help, STRS[13]));
        let mut g = f.clone();
        g.name = format!("renamed_{}", i);
        g.help = format!("{}{}", f.help, STRS[13]);
        if let Some(m) = p.mut_metric().first_mut() {
            let mut l = m.take_label();
            if let Some(lp) = l.first_mut() {
                lp.set_value(format!("{}\n\u{e9}", lp.value()));
                g.metrics[0].labels[0].1 = lp.value().to_string();
            }
            m.set_label(l);
        }
        rep.evaluations += 1;
        match catch(|| round_trip_protos(std::slice::from_ref(&p), std::slice::from_ref(&g))) {
            Ok(Ok(t)) => rep.outcome(&t),
            Ok(Err((c, d))) => rep.violation(format!("history:mutate-then-reencode:{}", c), d.clone(), json!({"engine":"enum","group":"history","detail": d})),
            Err(pn) => rep.violation("panic:history", pn.clone(), json!({"detail": pn})),
        }
    }
    rep.states = rep.evaluations;
    rep.traces = rep.evaluations;
    rep.assumptions = vec![
        "metric and label names are valid (excluded by the statement); a label named le/quantile supplied by a custom collector is not judged".into(),
        "u64 counts are compared as the f64 they are printed from (the format carries floats)".into(),
        "UNTYPED families are refused by the encoder (C17) and not part of this check".into(),
    ];
    std::process::exit(rep.finish());
}
