//! C06 — registry admission is exact and a failed registration leaves no trace.
//! Engine E2: BFS to a fixpoint over all register/unregister/gather histories
//! of an overlapping collector pool, each transition re-executed on a fresh
//! real Registry, against the reference registry of DESIGN.md appendix B.

use prometheus::core::{Collector, Desc};
use prometheus::proto::MetricFamily;
use prometheus::{Counter, CounterVec, Opts, Registry};
use serde_json::json;
use std::collections::{BTreeMap, BTreeSet, HashMap};
use verif_harness::refmodel::*;
use verif_harness::statespace::*;
use verif_harness::vsched::{self, Call, Driver, Execution, Recorder, SeqSpec, Val};
use verif_harness::*;

/// Descriptor in reference form.
#[derive(Clone, Debug)]
struct D {
    name: &'static str,
    help: &'static str,
    consts: Vec<(&'static str, &'static str)>,
    vars: Vec<&'static str>,
}

impl D {
    fn id(&self) -> String {
        let mut c = self.consts.clone();
        c.sort();
        format!("{}|{:?}", self.name, c.iter().map(|(_, v)| *v).collect::<Vec<_>>())
    }
    fn dim(&self) -> String {
        let mut c: Vec<&str> = self.consts.iter().map(|(k, _)| *k).collect();
        c.sort();
        let mut v = self.vars.clone();
        v.sort();
        format!("{}|{:?}|{:?}", self.help, c, v)
    }
    fn real(&self) -> Desc {
        let consts: HashMap<String, String> = self.consts.iter().map(|(k, v)| (k.to_string(), v.to_string())).collect();
        Desc::new(self.name.into(), self.help.into(), self.vars.iter().map(|s| s.to_string()).collect(), consts).unwrap()
    }
    /// The family this descriptor contributes to a gather (one zero-valued counter sample).
    fn family(&self) -> RFamily {
        let mut labels: Vec<(String, String)> = self.consts.iter().map(|(k, v)| (k.to_string(), v.to_string())).collect();
        for v in &self.vars {
            labels.push((v.to_string(), "x".into()));
        }
        labels.sort();
        RFamily { name: self.name.into(), help: self.help.into(), typ: RType::Counter, metrics: vec![RMetric { labels, counter: Some(0.0), ..Default::default() }] }
    }
}

fn d(name: &'static str, help: &'static str) -> D {
    D { name, help, consts: vec![], vars: vec![] }
}

/// The collector pool (reference side).
fn pool() -> Vec<(&'static str, Vec<D>)> {
    vec![
        ("k1", vec![d("m", "h")]),
        ("k2", vec![d("m", "h")]),
        ("k3", vec![d("m", "h2")]),
        ("k4", vec![D { consts: vec![("k", "1")], ..d("m", "h") }]),
        ("k5", vec![D { consts: vec![("k", "2")], ..d("m", "h") }]),
        ("k6", vec![D { vars: vec!["k"], ..d("m", "h") }]),
        ("k7", vec![d("n", "x"), d("m", "h")]),
        ("k8", vec![d("n", "y")]),
        ("k9", vec![d("p", "x"), d("q", "x")]),
        ("k10", vec![d("p", "x")]),
        ("k11", vec![d("q", "z"), d("r", "x")]),
    ]
}

struct Multi {
    descs: Vec<Desc>,
    fams: Vec<RFamily>,
}
impl Collector for Multi {
    fn desc(&self) -> Vec<&Desc> {
        self.descs.iter().collect()
    }
    fn collect(&self) -> Vec<MetricFamily> {
        self.fams.iter().map(|f| f.to_proto()).collect()
    }
}

/// Fresh real collector for pool entry `i` (library types where one exists).
fn real_collector(i: usize, ds: &[D]) -> Box<dyn Collector> {
    if ds.len() == 1 && ds[0].vars.is_empty() && i % 2 == 0 {
        let mut o = Opts::new(ds[0].name, ds[0].help);
        for (k, v) in &ds[0].consts {
            o = o.const_label(*k, *v);
        }
        Box::new(Counter::with_opts(o).unwrap())
    } else if ds.len() == 1 && !ds[0].vars.is_empty() {
        let v = CounterVec::new(Opts::new(ds[0].name, ds[0].help), &ds[0].vars).unwrap();
        v.with_label_values(&vec!["x"; ds[0].vars.len()]);
        Box::new(v)
    } else {
        Box::new(Multi { descs: ds.iter().map(|d| d.real()).collect(), fams: ds.iter().map(|d| d.family()).collect() })
    }
}

#[derive(Clone, Debug, PartialEq, Eq, Hash, serde::Serialize, serde::Deserialize)]
enum Op {
    Register(usize),
    Unregister(usize),
    Gather,
}

#[derive(Default, Clone, PartialEq, Eq, Hash)]
struct Model {
    registered: BTreeMap<BTreeSet<String>, usize>,
    ids: BTreeSet<String>,
    dims: BTreeMap<String, String>,
}

#[derive(Debug, PartialEq, Eq, Clone, Copy)]
enum Exp {
    Ok,
    AlreadyReg,
    AnyErr,
}

impl Model {
    fn register(&mut self, i: usize, ds: &[D]) -> Exp {
        let dup = ds.iter().any(|d| self.ids.contains(&d.id()));
        let dimc = ds.iter().any(|d| self.dims.get(d.name).map(|x| *x != d.dim()).unwrap_or(false));
        if dup && dimc {
            return Exp::AnyErr;
        }
        if dup {
            return Exp::AlreadyReg;
        }
        if dimc {
            return Exp::AnyErr;
        }
        let cid: BTreeSet<String> = ds.iter().map(|d| d.id()).collect();
        for d in ds {
            self.ids.insert(d.id());
            self.dims.insert(d.name.into(), d.dim());
        }
        self.registered.insert(cid, i);
        Exp::Ok
    }
    fn unregister(&mut self, ds: &[D]) -> Exp {
        let cid: BTreeSet<String> = ds.iter().map(|d| d.id()).collect();
        if self.registered.remove(&cid).is_some() {
            for d in ds {
                self.ids.remove(&d.id());
            }
            Exp::Ok
        } else {
            Exp::AnyErr
        }
    }
    fn gather(&self, pool: &[(&'static str, Vec<D>)]) -> Vec<String> {
        let mut by: BTreeMap<String, RFamily> = BTreeMap::new();
        for i in self.registered.values() {
            for d in &pool[*i].1 {
                let f = d.family();
                by.entry(f.name.clone()).and_modify(|e| e.metrics.extend(f.metrics.clone())).or_insert(f);
            }
        }
        by.values_mut().for_each(|f| f.metrics.sort_by_key(|m| m.labels.iter().map(|(_, v)| v.clone()).collect::<Vec<_>>()));
        by.values().map(|f| f.key(true)).collect()
    }
}

struct RegSut {
    pool: Vec<(&'static str, Vec<D>)>,
    n: usize,
    /// pool indices registered (on both sides) before the history starts
    prelude: Vec<usize>,
    /// pool indices the operations range over (empty = 0..n)
    movable: Vec<usize>,
    /// after the prelude, this many further counters are registered and then all unregistered again (a registry that
    /// has been large); the reference registry is unaffected by a completed wave
    wave: usize,
    /// every history is its own state (no merging by the state dump): hidden state a dump does not show cannot prune
    unmerged: bool,
}

impl Sut for RegSut {
    type Op = Op;
    fn depth_in_key(&self) -> bool {
        self.unmerged
    }
    fn merge_states(&self) -> bool {
        !self.unmerged
    }
    fn ops(&self, _hist: &[Op]) -> Vec<Op> {
        let mut v = vec![];
        let idx: Vec<usize> = if self.movable.is_empty() { (0..self.n).collect() } else { self.movable.clone() };
        for &i in &idx {
            v.push(Op::Register(i));
        }
        for &i in &idx {
            v.push(Op::Unregister(i));
        }
        v
    }
    fn replay(&self, hist: &[Op]) -> Result<String, Disagreement> {
        let reg = Registry::new();
        let mut model = Model::default();
        let mut transcript = vec![];
        let mut had_failed_register = false;
        for &i in &self.prelude {
            if reg.register(real_collector(i, &self.pool[i].1)).is_err() || model.register(i, &self.pool[i].1) != Exp::Ok {
                return Err(Disagreement { signature: "prelude".into(), what: format!("prelude registration of {} failed", self.pool[i].0), transcript });
            }
        }
        if self.wave > 0 {
            let wave: Vec<prometheus::IntCounter> = (0..self.wave).map(|k| prometheus::IntCounter::new(format!("wave_{:05}", k), "hw").unwrap()).collect();
            for (k, c) in wave.iter().enumerate() {
                if let Err(e) = reg.register(Box::new(c.clone())) {
                    return Err(Disagreement { signature: "wave-register".into(), what: format!("registering fresh counter wave_{:05} into a registry of {} collectors failed: {}", k, self.prelude.len() + k, e), transcript });
                }
            }
            for (k, c) in wave.iter().enumerate() {
                if let Err(e) = reg.unregister(Box::new(c.clone())) {
                    return Err(Disagreement { signature: "wave-unregister".into(), what: format!("unregistering wave_{:05} failed: {}", k, e), transcript });
                }
            }
            let g: Vec<String> = reg.gather().iter().map(|mf| RFamily::from_proto(mf).key(true)).collect();
            let eg = model.gather(&self.pool);
            if g != eg {
                return Err(Disagreement { signature: "gather-differs-after-wave".into(), what: format!("after a wave of {} registrations and unregistrations gather() returned {:?}, reference {:?}", self.wave, g, eg), transcript });
            }
        }
        let name = |o: &Op| match o {
            Op::Register(i) => format!("register({})", self.pool[*i].0),
            Op::Unregister(i) => format!("unregister({})", self.pool[*i].0),
            Op::Gather => "gather".into(),
        };
        for (step, op) in hist.iter().enumerate() {
            let (got, exp): (String, Exp) = match op {
                Op::Register(i) => {
                    let r = reg.register(real_collector(*i, &self.pool[*i].1));
                    let e = model.register(*i, &self.pool[*i].1);
                    (match r { Ok(()) => "Ok".into(), Err(prometheus::Error::AlreadyReg) => "Err(AlreadyReg)".into(), Err(_) => "Err(other)".into() }, e)
                }
                Op::Unregister(i) => {
                    let r = reg.unregister(real_collector(*i, &self.pool[*i].1));
                    let e = model.unregister(&self.pool[*i].1);
                    (match r { Ok(()) => "Ok".into(), Err(prometheus::Error::AlreadyReg) => "Err(AlreadyReg)".into(), Err(_) => "Err(other)".into() }, e)
                }
                Op::Gather => ("Ok".into(), Exp::Ok),
            };
            let agrees = match exp {
                Exp::Ok => got == "Ok",
                Exp::AlreadyReg => got == "Err(AlreadyReg)",
                Exp::AnyErr => got != "Ok",
            };
            transcript.push(format!("{}: impl {} / model {:?}", name(op), got, exp));
            if !agrees {
                let ctx = if had_failed_register { ":after-a-failed-register" } else { "" };
                return Err(Disagreement {
                    signature: format!("{}:impl={}:model={:?}{}", match op { Op::Register(_) => "register", Op::Unregister(_) => "unregister", Op::Gather => "gather" }, got, exp, ctx),
                    what: format!("step {} {}: implementation returned {}, reference says {:?}", step, name(op), got, exp),
                    transcript,
                });
            }
            if matches!(op, Op::Register(_)) && got != "Ok" {
                had_failed_register = true;
            }
            // gather after every call
            let g: Vec<String> = reg.gather().iter().map(|mf| RFamily::from_proto(mf).key(true)).collect();
            let eg = model.gather(&self.pool);
            if g != eg {
                transcript.push(format!("gather: impl {:?} / model {:?}", g, eg));
                return Err(Disagreement {
                    signature: format!("gather-differs-after-{}", match op { Op::Register(_) => "register", Op::Unregister(_) => "unregister", Op::Gather => "gather" }),
                    what: format!("step {} {}: gather() returned {:?}, reference {:?}", step, name(op), g, eg),
                    transcript,
                });
            }
        }
        let mkey = format!("{:?}|{:?}|{:?}", model.registered, model.ids, model.dims);
        Ok(format!("{}##{}", reg.verif_dump(), mkey))
    }
}

// ------------------------------------------------------ concurrent part (E1)

/// Threads issuing register / unregister / gather on one shared Registry;
/// the history must be linearizable w.r.t. the reference registry.
struct RegDriver {
    pool: Vec<(&'static str, Vec<D>)>,
    start: Vec<usize>,
    programs: Vec<Vec<Op>>,
    /// hash seed of the registry's collector map (fixes its iteration order for all executions of this driver)
    map_seed: u64,
}

struct RegSpec {
    pool: Vec<(&'static str, Vec<D>)>,
    start: Vec<usize>,
}

impl SeqSpec for RegSpec {
    type State = Model;
    fn init(&self) -> Model {
        let mut m = Model::default();
        for &i in &self.start {
            m.register(i, &self.pool[i].1);
        }
        m
    }
    fn apply(&self, st: &Model, call: &Call) -> Option<Model> {
        let mut m = st.clone();
        let i = match call.arg {
            Val::I(i) => i as usize,
            _ => 0,
        };
        let got = match &call.ret {
            Val::S(s) => s.clone(),
            _ => String::new(),
        };
        let ok = |exp: Exp| match exp {
            Exp::Ok => got == "Ok",
            Exp::AlreadyReg => got == "Err(AlreadyReg)",
            Exp::AnyErr => got != "Ok",
        };
        match call.name.as_str() {
            "register" => {
                let e = m.register(i, &self.pool[i].1);
                if ok(e) { Some(m) } else { None }
            }
            "unregister" => {
                let e = m.unregister(&self.pool[i].1);
                if ok(e) { Some(m) } else { None }
            }
            "gather" => {
                if got == format!("{:?}", m.gather(&self.pool)) { Some(m) } else { None }
            }
            _ => None,
        }
    }
}

fn res_str(r: prometheus::Result<()>) -> Val {
    Val::S(match r {
        Ok(()) => "Ok".into(),
        Err(prometheus::Error::AlreadyReg) => "Err(AlreadyReg)".into(),
        Err(_) => "Err(other)".into(),
    })
}

impl Driver for RegDriver {
    type Shared = Registry;
    fn name(&self) -> String {
        let nm = |o: &Op| match o {
            Op::Register(i) => format!("register({})", self.pool[*i].0),
            Op::Unregister(i) => format!("unregister({})", self.pool[*i].0),
            Op::Gather => "gather".to_string(),
        };
        format!("registry start {:?} {:?}", self.start.iter().map(|i| self.pool[*i].0).collect::<Vec<_>>(), self.programs.iter().map(|p| p.iter().map(nm).collect::<Vec<_>>()).collect::<Vec<_>>())
    }
    fn threads(&self) -> usize {
        self.programs.len()
    }
    fn setup(&self) -> Registry {
        // the scheduler re-executes schedules: the collector map must iterate in the same order every time
        prometheus::verif::set_map_seed(Some(self.map_seed));
        let r = Registry::new();
        prometheus::verif::set_map_seed(None);
        for &i in &self.start {
            r.register(real_collector(i, &self.pool[i].1)).unwrap();
        }
        r
    }
    fn body(&self, t: usize, sh: &Registry, rec: &Recorder) {
        for op in &self.programs[t] {
            match op {
                Op::Register(i) => rec.call("register", Val::I(*i as i64), || res_str(sh.register(real_collector(*i, &self.pool[*i].1)))),
                Op::Unregister(i) => rec.call("unregister", Val::I(*i as i64), || res_str(sh.unregister(real_collector(*i, &self.pool[*i].1)))),
                Op::Gather => rec.call("gather", Val::Unit, || Val::S(format!("{:?}", sh.gather().iter().map(|mf| RFamily::from_proto(mf).key(true)).collect::<Vec<_>>()))),
            };
        }
    }
    fn epilogue(&self, sh: &Registry, rec: &Recorder) {
        rec.call("gather", Val::Unit, || Val::S(format!("{:?}", sh.gather().iter().map(|mf| RFamily::from_proto(mf).key(true)).collect::<Vec<_>>())));
    }
    fn check(&self, _sh: &Registry, x: &Execution) -> Result<String, (String, String)> {
        match vsched::linearizable(&RegSpec { pool: self.pool.clone(), start: self.start.clone() }, &x.calls) {
            Some(_) => Ok(x.calls.iter().map(|c| format!("{}:{:?}", c.name, c.ret)).collect::<Vec<_>>().join(";")),
            None => Err(("concurrent:not-linearizable".into(), format!("history not linearizable w.r.t. the reference registry: {}", x.calls.iter().map(|c| c.show()).collect::<Vec<_>>().join("; ")))),
        }
    }
    fn spec(&self) -> serde_json::Value {
        json!({"kind": "registry", "start": self.start, "programs": self.programs, "map_seed": self.map_seed})
    }
}

fn reg_driver_from_spec(v: &serde_json::Value) -> Option<RegDriver> {
    Some(RegDriver { pool: pool(), start: serde_json::from_value(v["start"].clone()).ok()?, programs: serde_json::from_value(v["programs"].clone()).ok()?, map_seed: v["map_seed"].as_u64().unwrap_or(1) })
}

fn parse_op(s: &str, pool: &[(&'static str, Vec<D>)]) -> Op {
    let idx = |n: &str| pool.iter().position(|(k, _)| *k == n).unwrap();
    if let Some(r) = s.strip_prefix("Register(") {
        Op::Register(r.trim_end_matches(')').parse().unwrap())
    } else if let Some(r) = s.strip_prefix("Unregister(") {
        Op::Unregister(r.trim_end_matches(')').parse().unwrap())
    } else if let Some(r) = s.strip_prefix("register(") {
        Op::Register(idx(r.trim_end_matches(')')))
    } else if let Some(r) = s.strip_prefix("unregister(") {
        Op::Unregister(idx(r.trim_end_matches(')')))
    } else {
        Op::Gather
    }
}

fn main() {
    let args = parse_args();
    quiet_panics();
    let mut rep = Report::new("C06", &args);
    let thorough = args.tier == Tier::Thorough;
    let pool = pool();
    if let Some(p) = &args.replay {
        let doc = read_replay(p);
        if doc["engine"] == "vsched" {
            std::process::exit(vsched::replay_cli("C06", p, &doc, reg_driver_from_spec));
        }
        let ops: Vec<Op> = replay_value_ops(&doc).iter().map(|s| parse_op(s, &pool)).collect();
        let sut = RegSut { n: pool.len(), pool, prelude: vec![], movable: vec![], wave: 0, unmerged: false };
        let r1 = sut.replay(&ops);
        let r2 = sut.replay(&ops);
        match (&r1, &r2) {
            (Err(a), Err(b)) if a.transcript == b.transcript => {
                for l in &a.transcript {
                    println!("  {}", l);
                }
                println!("VIOLATION property=C06 replay={}", p);
                std::process::exit(1);
            }
            (Ok(a), Ok(b)) if a == b => {
                println!("replay: history conforms");
                std::process::exit(0);
            }
            _ => {
                eprintln!("replay diverged");
                std::process::exit(2);
            }
        }
    }
    let n = if thorough { pool.len() } else { 8 };
    let depth = if thorough { 24 } else { 16 };
    rep.rule = format!(
        "explicit-state BFS (stateright) over all histories of register(k)/unregister(k) for k in the first {} collectors of the pool {:?}, to a fixpoint (state = real registry dump + reference model state; depth safety net {}); each transition rebuilds a fresh Registry, replays the history, compares every call's result class with the reference registry and gather() with the reference gather after every call. distinct = unique states. A second BFS starts from a registry holding 24 counters and ranges over the collectors with the smallest, largest and median descriptor id, a two-descriptor collector overlapping the largest one and a fresh counter.",
        n,
        pool.iter().map(|(k, ds)| format!("{}={:?}", k, ds.iter().map(|d| format!("{}/{}{:?}{:?}", d.name, d.help, d.consts, d.vars)).collect::<Vec<_>>())).collect::<Vec<_>>(),
        depth
    );
    rep.bounds = json!({"collectors": n, "depth_safety_net": depth});
    let cpool = pool.clone();
    let out = explore(RegSut { pool, n, prelude: vec![], movable: vec![], wave: 0, unmerged: false }, depth, if thorough { 1500 } else { 120 }, "registry", &mut rep);
    if !out.fixpoint {
        rep.exhaustive = false;
        if rep.cap_hit.is_none() {
            rep.cap_hit = Some(format!("depth bound {} reached before the fixpoint", depth));
        }
    }
    // large registry: 24 counters registered up front (more than any small-size fast path), then every history
    // (to a fixpoint) over the collectors with the smallest / largest / median descriptor id, a two-descriptor
    // collector overlapping the largest one, and a fresh counter
    {
        let leak = |s: String| -> &'static str { Box::leak(s.into_boxed_str()) };
        let mut big: Vec<(&'static str, Vec<D>)> = (0..24).map(|i| { let n = leak(format!("b{:02}", i)); (n, vec![d(n, "hb")]) }).collect();
        let mut by_id: Vec<(u64, usize)> = big.iter().enumerate().map(|(i, (_, ds))| (ds[0].real().id, i)).collect();
        by_id.sort();
        let (imin, imed, imax) = (by_id[0].1, by_id[12].1, by_id[23].1);
        let max_name = big[imax].0;
        big.push(("overlap", vec![d("x_extra", "hx"), d(max_name, "hb")]));
        big.push(("fresh", vec![d("fresh", "hf")]));
        let movable = vec![imin, imax, imed, 24, 25];
        let out2 = explore(RegSut { n: big.len(), pool: big.clone(), prelude: (0..24).collect(), movable: movable.clone(), wave: 0, unmerged: false }, 14, if thorough { 600 } else { 100 }, "registry-with-24-collectors", &mut rep);
        if !out2.fixpoint {
            rep.exhaustive = false;
        }
        // every history (none merged) of up to 7 (thorough 8) calls over three (thorough four) plain counters: the merged
        // searches above trust the registry dump to show the whole state; this one does not
        {
            let k = if thorough { 4 } else { 3 };
            let small: Vec<(&'static str, Vec<D>)> = big[..k].to_vec();
            let t0 = std::time::Instant::now();
            let _ = explore(RegSut { n: k, pool: small, prelude: vec![], movable: vec![], wave: 0, unmerged: true }, if thorough { 8 } else { 7 }, 1500, "registry-unmerged-histories", &mut rep);
            eprintln!("registry-unmerged-histories: {:.1}s", t0.elapsed().as_secs_f64());
        }
        // the same 24 collectors after a wave of 9000 (thorough: 40000) further registrations that were all undone again
        let wave = if thorough { 40000 } else { 9000 };
        let t0 = std::time::Instant::now();
        let out3 = explore(RegSut { n: big.len(), pool: big, prelude: (0..24).collect(), movable: vec![movable[1], movable[3], movable[4]], wave, unmerged: false }, 10, 600, "registry-after-a-wave", &mut rep);
        eprintln!("registry-after-a-wave({}): {:.1}s", wave, t0.elapsed().as_secs_f64());
        if !out3.fixpoint {
            rep.exhaustive = false;
        }
    }
    // concurrent part (E1): register/unregister/gather from 2-3 threads on one registry
    let alpha = [Op::Register(0), Op::Register(2), Op::Unregister(7), Op::Register(7), Op::Unregister(0), Op::Register(6), Op::Gather];
    let progs: Vec<Vec<Op>> = combi::sequences_upto(alpha.len(), 2).filter(|s| !s.is_empty()).map(|s| s.iter().map(|&i| alpha[i].clone()).collect()).collect();
    let mut drivers = vec![];
    for i in 0..progs.len() {
        for j in i..progs.len() {
            if !thorough && progs[i].len() + progs[j].len() > 3 {
                continue;
            }
            for start in [vec![7usize], vec![0, 7]] {
                drivers.push(RegDriver { pool: cpool.clone(), start, programs: vec![progs[i].clone(), progs[j].clone()], map_seed: 1 + (i + j) as u64 % 3 });
            }
        }
    }
    for i in 0..alpha.len() {
        for j in i..alpha.len() {
            for k in j..alpha.len() {
                drivers.push(RegDriver { pool: cpool.clone(), start: vec![7], programs: vec![vec![alpha[i].clone()], vec![alpha[j].clone()], vec![alpha[k].clone()]], map_seed: 1 + (i + j + k) as u64 % 3 });
            }
        }
    }
    // a scrape in progress, a registration, and a conflicting collector registered and unregistered again by a third thread
    for (x, y) in [(2usize, 4usize), (4, 2), (0, 2), (2, 0), (5, 0), (6, 2)] {
        for (si, start) in [vec![7usize], vec![7, 9]].into_iter().enumerate() {
            if si == 1 && !thorough {
                continue;
            }
            drivers.push(RegDriver { pool: cpool.clone(), start, programs: vec![vec![Op::Gather], vec![Op::Register(x)], vec![Op::Register(y), Op::Unregister(y)]], map_seed: 1 + (x + y) as u64 % 3 });
        }
    }
    let nd = drivers.len();
    let results = vsched::explore_many(drivers, vsched::Mode::U, 300_000, 3, 16, |d| RegDriver { pool: d.pool.clone(), start: d.start.clone(), programs: d.programs.clone(), map_seed: d.map_seed });
    let summary = vsched::fold_results(&mut rep, results);
    rep.extra.insert("concurrent_part".into(), json!({"drivers": nd, "modes": summary}));
    rep.rule.push_str(&format!(" In addition (E1): {} concurrent drivers (all pairs of programs of <=2 calls, quick: total <=3, and all triples of 1-call programs over register(k1), register(k3), unregister(k8), register(k8), unregister(k1), register(k7), gather) on one shared Registry, every interleaving at lock operations and call boundaries; histories must be linearizable w.r.t. the reference registry.", nd));
    rep.assumptions = vec![
        "disagreement inside one collector's own descriptor list, zero-descriptor collectors and collisions of the wrapping-sum collector id are not judged".into(),
        "verif_dump() of the registry is used only as de-duplication key, never as oracle".into(),
    ];
    std::process::exit(rep.finish());
}
