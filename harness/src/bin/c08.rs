//! C08 — bucket counts follow `value <= upper bound` for every input.
//! Bounded-exhaustive enumeration (engine E3) of bucket lists and observation
//! sequences over an f64 class pool, on the real Histogram / HistogramVec /
//! LocalHistogram code, against a fold/count reference.

use prometheus::core::Collector;
use prometheus::{Histogram, HistogramOpts, HistogramVec};
use serde_json::{json, Value};
use verif_harness::*;

const POOL: [f64; 9] = [
    f64::NEG_INFINITY,
    -1.0,
    -0.0,
    0.0,
    5e-324,
    1.0,
    2.0,
    f64::INFINITY,
    f64::NAN,
];

#[derive(Clone, Copy, Debug, PartialEq, Eq)]
enum Path {
    Direct,
    VecChild,
    LocalOneFlush,
    LocalFlushEach,
    LocalDropFlush,
    CollectBetween,
    LocalVec,
}

const PATHS: [Path; 7] = [
    Path::Direct,
    Path::VecChild,
    Path::LocalOneFlush,
    Path::LocalFlushEach,
    Path::LocalDropFlush,
    Path::CollectBetween,
    Path::LocalVec,
];

/// The acceptance predicate of the property statement: strictly increasing
/// numbers (NaN is not a number); empty selects the defaults; trailing +Inf dropped.
fn reference_accept(b: &[f64]) -> Option<Vec<f64>> {
    if b.is_empty() {
        return Some(prometheus::DEFAULT_BUCKETS.to_vec());
    }
    if b.iter().any(|x| x.is_nan()) {
        return None;
    }
    for w in b.windows(2) {
        if !(w[0] < w[1]) {
            return None;
        }
    }
    let mut v = b.to_vec();
    if *v.last().unwrap() == f64::INFINITY {
        v.pop();
    }
    Some(v)
}

struct Snap {
    bounds: Vec<f64>,
    cum: Vec<u64>,
    count: u64,
    sum: f64,
}

fn snap_of(mfs: Vec<prometheus::proto::MetricFamily>) -> Result<Snap, String> {
    if mfs.len() != 1 || mfs[0].get_metric().len() != 1 {
        return Err(format!("collect returned {} families", mfs.len()));
    }
    let m = &mfs[0].get_metric()[0];
    let h = m.get_histogram();
    Ok(Snap {
        bounds: h.get_bucket().iter().map(|b| b.upper_bound()).collect(),
        cum: h.get_bucket().iter().map(|b| b.cumulative_count()).collect(),
        count: h.get_sample_count(),
        sum: h.get_sample_sum(),
    })
}

fn expected(bounds: &[f64], obs: &[f64], batches: &[usize]) -> Snap {
    // batches: lengths of consecutive batches whose sums are folded separately
    // (a local histogram accumulates its own sum from +0.0 before flushing).
    let mut sum = 0.0f64;
    let mut i = 0;
    for &l in batches {
        let mut s = 0.0f64;
        for v in &obs[i..i + l] {
            s += *v;
        }
        if l > 0 {
            sum += s;
        }
        i += l;
    }
    assert_eq!(i, obs.len());
    Snap {
        bounds: bounds.to_vec(),
        cum: bounds
            .iter()
            .map(|b| obs.iter().filter(|v| **v <= *b).count() as u64)
            .collect(),
        count: obs.len() as u64,
        sum,
    }
}

fn compare(got: &Snap, exp: &Snap) -> Option<(String, String)> {
    if got.bounds.len() != exp.bounds.len()
        || !got.bounds.iter().zip(&exp.bounds).all(|(a, b)| same_f64(*a, *b))
    {
        return Some((
            "reported-bounds".into(),
            format!("bounds {:?} expected {:?}", got.bounds, exp.bounds),
        ));
    }
    if got.cum != exp.cum {
        return Some((
            "bucket-counts".into(),
            format!("cumulative counts {:?} expected {:?}", got.cum, exp.cum),
        ));
    }
    if got.count != exp.count {
        return Some(("sample-count".into(), format!("count {} expected {}", got.count, exp.count)));
    }
    if !same_f64(got.sum, exp.sum) {
        return Some((
            "sample-sum".into(),
            format!("sum {} expected {}", f64s(got.sum), f64s(exp.sum)),
        ));
    }
    None
}

fn opts(buckets: &[f64]) -> HistogramOpts {
    HistogramOpts::new("h", "help").buckets(buckets.to_vec())
}

/// Runs one (bucket list, observation list, path) case on the real code.
/// Returns (class, detail) on disagreement with the reference.
fn run_case(buckets: &[f64], obs: &[f64], path: Path, calls: &mut u64) -> Option<(String, String)> {
    let exp_bounds = reference_accept(buckets);
    // construction
    let (h, vec): (Histogram, Option<HistogramVec>) = match path {
        Path::VecChild | Path::LocalVec => {
            *calls += 2;
            let v = match HistogramVec::new(opts(buckets), &["l"]) {
                Ok(v) => v,
                Err(e) => return Some(("vec-constructor-error".into(), format!("HistogramVec::new failed: {}", e))),
            };
            match v.get_metric_with_label_values(&["x"]) {
                Ok(h) => {
                    if exp_bounds.is_none() {
                        return Some(("accepts-invalid-buckets".into(), "HistogramVec child created".into()));
                    }
                    (h, Some(v))
                }
                Err(e) => {
                    if exp_bounds.is_some() {
                        return Some(("rejects-valid-buckets".into(), format!("child creation failed: {}", e)));
                    }
                    return None;
                }
            }
        }
        _ => {
            *calls += 1;
            match Histogram::with_opts(opts(buckets)) {
                Ok(h) => {
                    if exp_bounds.is_none() {
                        return Some(("accepts-invalid-buckets".into(), "Histogram::with_opts returned Ok".into()));
                    }
                    (h, None)
                }
                Err(e) => {
                    if exp_bounds.is_some() {
                        return Some(("rejects-valid-buckets".into(), format!("with_opts failed: {}", e)));
                    }
                    return None;
                }
            }
        }
    };
    let bounds = exp_bounds.unwrap();
    let mut batches: Vec<usize> = vec![1; obs.len()];
    match path {
        Path::Direct | Path::VecChild => {
            for v in obs {
                h.observe(*v);
                *calls += 1;
            }
        }
        Path::LocalOneFlush | Path::LocalDropFlush => {
            let l = h.local();
            for (i, v) in obs.iter().enumerate() {
                l.observe(*v);
                *calls += 1;
                if l.get_sample_count() != (i + 1) as u64 {
                    return Some(("local-pending-count".into(), format!("local count {}", l.get_sample_count())));
                }
            }
            let mut s = 0.0;
            for v in obs {
                s += *v;
            }
            if !same_f64(l.get_sample_sum(), s) {
                return Some(("local-pending-sum".into(), format!("local sum {}", f64s(l.get_sample_sum()))));
            }
            if path == Path::LocalOneFlush {
                l.flush();
                if l.get_sample_count() != 0 {
                    return Some(("local-not-cleared".into(), "pending count non-zero after flush".into()));
                }
                l.flush();
            } else {
                drop(l);
            }
            *calls += 2;
            batches = vec![obs.len()];
        }
        Path::LocalFlushEach => {
            let l = h.local();
            for v in obs {
                l.observe(*v);
                l.flush();
                *calls += 2;
            }
        }
        Path::LocalVec => {
            let mut lv = vec.as_ref().unwrap().local();
            for v in obs {
                lv.with_label_values(&["x"]).observe(*v);
                *calls += 1;
            }
            lv.flush();
            *calls += 1;
            batches = vec![obs.len()];
        }
        Path::CollectBetween => {
            // collect after every observation: exercises the shard carry-over
            for (i, v) in obs.iter().enumerate() {
                h.observe(*v);
                *calls += 2;
                let got = match snap_of(h.collect()) {
                    Ok(s) => s,
                    Err(e) => return Some(("collect-shape".into(), e)),
                };
                let exp = expected(&bounds, &obs[..=i], &vec![1; i + 1]);
                if let Some((c, d)) = compare(&got, &exp) {
                    return Some((format!("{}-after-intermediate-collect", c), d));
                }
            }
        }
    }
    *calls += 1;
    let got = match path {
        Path::VecChild | Path::LocalVec => {
            let mfs = vec.as_ref().unwrap().collect();
            match snap_of(mfs) {
                Ok(s) => s,
                Err(e) => return Some(("collect-shape".into(), e)),
            }
        }
        _ => match snap_of(h.collect()) {
            Ok(s) => s,
            Err(e) => return Some(("collect-shape".into(), e)),
        },
    };
    let exp = expected(&bounds, obs, &batches);
    if let Some(r) = compare(&got, &exp) {
        return Some(r);
    }
    // the accessor pair agrees with the snapshot at quiescence
    if h.get_sample_count() != exp.count {
        return Some(("get_sample_count".into(), format!("{} expected {}", h.get_sample_count(), exp.count)));
    }
    if !same_f64(h.get_sample_sum(), exp.sum) {
        return Some(("get_sample_sum".into(), format!("{} expected {}", f64s(h.get_sample_sum()), f64s(exp.sum))));
    }
    // a second collect reports the same
    let got2 = match path {
        Path::VecChild | Path::LocalVec => snap_of(vec.as_ref().unwrap().collect()),
        _ => snap_of(h.collect()),
    };
    match got2 {
        Ok(s) => compare(&s, &exp).map(|(c, d)| (format!("{}-second-collect", c), d)),
        Err(e) => Some(("collect-shape".into(), e)),
    }
}

fn fl(v: &[f64]) -> Vec<String> {
    v.iter().map(|x| f64s(*x)).collect()
}

fn replay_doc(buckets: &[f64], obs: &[f64], path: Path, detail: &str) -> Value {
    json!({"engine":"enum","buckets": fl(buckets), "observations": fl(obs), "path": format!("{:?}", path), "detail": detail})
}

fn classify_buckets(b: &[f64]) -> &'static str {
    if b.is_empty() {
        "empty"
    } else if b.iter().any(|x| x.is_nan()) {
        "nan-bound"
    } else if b.windows(2).any(|w| w[0] == w[1]) {
        "duplicate-bound"
    } else if b.windows(2).any(|w| w[0] > w[1]) {
        "decreasing"
    } else {
        "increasing"
    }
}

fn main() {
    let args = parse_args();
    quiet_panics();
    let mut rep = Report::new("C08", &args);
    if let Some(p) = &args.replay {
        let doc = read_replay(p);
        let b: Vec<f64> = doc["buckets"].as_array().unwrap().iter().map(|s| f64_from_s(s.as_str().unwrap())).collect();
        let o: Vec<f64> = doc["observations"].as_array().unwrap().iter().map(|s| f64_from_s(s.as_str().unwrap())).collect();
        let path = PATHS.iter().find(|p| format!("{:?}", p) == doc["path"].as_str().unwrap()).cloned().unwrap();
        let mut calls = 0;
        let r1 = catch(|| run_case(&b, &o, path, &mut calls));
        let r2 = catch(|| run_case(&b, &o, path, &mut calls));
        println!("replay buckets={:?} observations={:?} path={:?}", fl(&b), fl(&o), path);
        println!("run1: {:?}\nrun2: {:?}", r1, r2);
        if format!("{:?}", r1) != format!("{:?}", r2) {
            eprintln!("replay diverged");
            std::process::exit(2);
        }
        match r1 {
            Ok(None) => std::process::exit(0),
            _ => {
                println!("VIOLATION property=C08 replay={}", p);
                std::process::exit(1)
            }
        }
    }
    let max_b = if args.tier == Tier::Thorough { 4 } else { 3 };
    let max_o = if args.tier == Tier::Thorough { 4 } else { 3 };
    rep.rule = format!(
        "all bucket lists of length 0..={} over the 9-value f64 pool {:?}; for every list all 7 paths; for every accepted list all observation sequences of length 0..={} over the same pool (which contains every bound); plus long lists of 8..65 (thorough ..257) increasing bounds holding +0.0 or -0.0, with every pool value, bound and midpoint as an observation. distinct = distinct (bucket-class, accepted?, path, snapshot) outcomes",
        max_b, fl(&POOL), max_o
    );
    rep.bounds = json!({"bucket_list_len": max_b, "observation_len": max_o, "pool": fl(&POOL), "paths": PATHS.iter().map(|p| format!("{:?}", p)).collect::<Vec<_>>()});
    let mut lists = 0u64;
    let mut accepted = 0u64;
    for bi in combi::sequences_upto(POOL.len(), max_b) {
        let buckets: Vec<f64> = bi.iter().map(|&i| POOL[i]).collect();
        lists += 1;
        let acc = reference_accept(&buckets).is_some();
        if acc {
            accepted += 1;
        }
        let obs_space: Vec<Vec<usize>> = if acc {
            combi::sequences_upto(POOL.len(), max_o).collect()
        } else {
            vec![vec![]]
        };
        for oi in &obs_space {
            let obs: Vec<f64> = oi.iter().map(|&i| POOL[i]).collect();
            for &path in &PATHS {
                rep.evaluations += 1;
                let mut calls = 0u64;
                let r = watchdog::case(|| format!("buckets {:?} observations {:?} via {:?}", fl(&buckets), fl(&obs), path), || catch(|| run_case(&buckets, &obs, path, &mut calls)));
                rep.transitions += calls;
                let r = match r {
                    Ok(r) => r,
                    Err(p) => Some(("panic".to_string(), format!("panicked: {}", p))),
                };
                match r {
                    None => {
                        if obs.len() <= 1 {
                            rep.outcome(format!("{}|{}|{:?}|{:?}", classify_buckets(&buckets), acc, path, fl(&obs)));
                        } else {
                            rep.outcome(format!("{}|{}|{:?}|n{}", classify_buckets(&buckets), acc, path, obs.len()));
                        }
                        if rep.evaluations % 50021 == 1 {
                            rep.sample(replay_doc(&buckets, &obs, path, "ok"));
                        }
                    }
                    Some((class, detail)) => {
                        let sig = format!("{}:{}:{:?}", class, classify_buckets(&buckets), path);
                        rep.outcome(format!("VIOL|{}", sig));
                        rep.violation(
                            sig,
                            format!("buckets {:?} observations {:?} via {:?}: {}", fl(&buckets), fl(&obs), path, detail),
                            replay_doc(&buckets, &obs, path, &detail),
                        );
                    }
                }
            }
        }
    }
    // long bucket lists (sizes around the thresholds at which a search strategy might switch), holding +0.0 or -0.0 as a
    // bound: every pool value, every bound and every midpoint as a single observation, and all of them in one sequence
    let sizes: &[usize] = if args.tier == Tier::Thorough { &[7, 8, 15, 16, 17, 31, 32, 33, 63, 64, 65, 130, 257] } else { &[8, 16, 31, 32, 33, 64, 65] };
    for &n in sizes {
        for zero in [0.0f64, -0.0] {
            let buckets: Vec<f64> = (0..n).map(|k| if k == n / 2 { zero } else { k as f64 - (n / 2) as f64 }).collect();
            lists += 1;
            accepted += 1;
            let mut singles: Vec<f64> = POOL.to_vec();
            for b in &buckets {
                singles.push(*b);
                singles.push(*b + 0.5);
            }
            singles.push(-0.0);
            singles.push(0.0);
            let mut obs_space: Vec<Vec<f64>> = singles.iter().map(|v| vec![*v]).collect();
            obs_space.push(singles.clone());
            for obs in &obs_space {
                for &path in &PATHS {
                    rep.evaluations += 1;
                    let mut calls = 0u64;
                    let r = watchdog::case(|| format!("{} buckets, observations {:?} via {:?}", n, fl(obs), path), || catch(|| run_case(&buckets, obs, path, &mut calls)));
                    rep.transitions += calls;
                    let r = match r {
                        Ok(r) => r,
                        Err(p) => Some(("panic".to_string(), format!("panicked: {}", p))),
                    };
                    match r {
                        None => rep.outcome(format!("long{}|{}|{:?}|n{}", n, zero.is_sign_negative(), path, obs.len().min(2))),
                        Some((class, detail)) => {
                            let sig = format!("{}:long-list:{:?}", class, path);
                            rep.violation(sig, format!("{} buckets {:?}.. observations {:?} via {:?}: {}", n, fl(&buckets[..4]), fl(&obs[..obs.len().min(6)]), path, detail), replay_doc(&buckets, obs, path, &detail));
                        }
                    }
                }
            }
        }
    }
    rep.states = rep.evaluations;
    rep.traces = rep.evaluations;
    rep.extra.insert("bucket_lists".into(), json!(lists));
    rep.extra.insert("accepted_bucket_lists".into(), json!(accepted));
    rep.assumptions = vec![
        "values outside the 9-class f64 pool are not covered".into(),
        "local-histogram sums are compared with the batch-wise fold (a batch accumulates from +0.0 before it is added)".into(),
    ];
    std::process::exit(rep.finish());
}
