//! `hookaudit` prints the statements of the hooked modules that name a synchronisation facility and the ones the
//! committed baseline does not list; `hookaudit --write` rewrites the baseline from /repo's current tree (do that only
//! after routing a new primitive through /repo/src/verif.rs).
use verif_harness::{hook_audit, hook_audit_items, VERIF_ROOT};

fn main() {
    let write = std::env::args().any(|a| a == "--write");
    let items = hook_audit_items();
    if write {
        let p = std::path::PathBuf::from(VERIF_ROOT).join("hook_audit_baseline.json");
        std::fs::write(&p, serde_json::to_string_pretty(&items).unwrap() + "\n").unwrap();
        println!("wrote {}", p.display());
        return;
    }
    for (f, its) in &items {
        for i in its {
            println!("{}: {}", f, i);
        }
    }
    let gaps = hook_audit();
    for g in &gaps {
        println!("HOOK-COVERAGE: {}", g);
    }
    std::process::exit(if gaps.is_empty() { 0 } else { 2 });
}
