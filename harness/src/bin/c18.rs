//! C18 — a timer records its duration exactly once, or never when discarded.
//! Engine E2: BFS over all histories of start / observe_duration /
//! stop_and_record / stop_and_discard / drop / drop-on-another-thread /
//! observe_closure_duration over <=3 timers of one shared or local histogram,
//! interleaved with steps of a virtual clock (forwards and backwards).

use prometheus::core::Collector;
use prometheus::local::{LocalHistogram, LocalHistogramTimer};
use prometheus::verif::time::set_thread_clock_nanos;
use prometheus::{Histogram, HistogramOpts, HistogramTimer};
use serde_json::json;
use verif_harness::statespace::*;
use verif_harness::*;

const TIMERS: usize = 3;
const TICKS: [i128; 3] = [500_000_000, -1_000_000_000, 2_000_000_000];

#[derive(Clone, Debug, PartialEq, Eq, Hash, serde::Serialize, serde::Deserialize)]
enum Op {
    Start(usize),
    ObserveDuration(usize),
    StopAndRecord(usize),
    StopAndDiscard(usize),
    Drop(usize),
    /// dropped by a destructor that runs while the thread unwinds from a panic
    DropUnwinding(usize),
    DropOnThread(usize),
    /// observe_closure_duration with a closure during which the clock moves by TICKS[k]
    Closure(usize),
    Tick(usize),
    /// local variant only: flush the local histogram the timers were started from
    FlushLocal,
}

enum T {
    S(HistogramTimer),
    L(LocalHistogramTimer),
}

struct TimerSut {
    local: bool,
    merge: bool,
}

fn secs(n: i128) -> f64 {
    if n <= 0 {
        0.0
    } else {
        n as f64 / 1e9
    }
}

impl Sut for TimerSut {
    type Op = Op;
    fn merge_states(&self) -> bool {
        self.merge
    }
    fn ops(&self, hist: &[Op]) -> Vec<Op> {
        let mut live = [false; TIMERS];
        for o in hist {
            match o {
                Op::Start(i) => live[*i] = true,
                Op::ObserveDuration(i) | Op::StopAndRecord(i) | Op::StopAndDiscard(i) | Op::Drop(i) | Op::DropUnwinding(i) | Op::DropOnThread(i) => live[*i] = false,
                _ => {}
            }
        }
        let mut v = vec![];
        // only the lowest free slot may be started (slots are interchangeable)
        if let Some(i) = live.iter().position(|l| !l) {
            v.push(Op::Start(i));
        }
        v.push(Op::Tick(0));
        for i in 0..TIMERS {
            if live[i] {
                v.extend([Op::StopAndRecord(i), Op::StopAndDiscard(i), Op::Drop(i), Op::ObserveDuration(i), Op::DropOnThread(i)]);
                if i == 0 {
                    v.push(Op::DropUnwinding(i));
                }
            }
        }
        v.extend([Op::Tick(1), Op::Tick(2), Op::Closure(0), Op::Closure(2), Op::Closure(1)]);
        if self.local {
            v.push(Op::FlushLocal);
        }
        v
    }

    fn replay(&self, hist: &[Op]) -> Result<String, Disagreement> {
        let mut now: i128 = 10_000_000_000;
        set_thread_clock_nanos(Some(now));
        let shared = Histogram::with_opts(HistogramOpts::new("h", "h").buckets(vec![1.0])).unwrap();
        let local: Option<LocalHistogram> = if self.local { Some(shared.local()) } else { None };
        let mut timers: Vec<Option<T>> = (0..TIMERS).map(|_| None).collect();
        let mut starts: Vec<Option<i128>> = vec![None; TIMERS];
        let mut m_count = 0u64;
        let mut m_sum = 0.0f64;
        let mut m_lo = 0u64;
        // observations pending in the local histogram the timers are started from
        let (mut p_count, mut p_sum, mut p_lo) = (0u64, 0.0f64, 0u64);
        let mut tr = vec![];
        let mut result: Result<(), Disagreement> = Ok(());
        for (step, op) in hist.iter().enumerate() {
            let mut note = String::new();
            let mut expect_obs: Option<f64> = None;
            match op {
                Op::Start(i) => {
                    timers[*i] = Some(match &local {
                        Some(l) => T::L(l.start_timer()),
                        None => T::S(shared.start_timer()),
                    });
                    starts[*i] = Some(now);
                }
                Op::ObserveDuration(i) => {
                    match timers[*i].take().unwrap() {
                        T::S(t) => t.observe_duration(),
                        T::L(t) => t.observe_duration(),
                    }
                    expect_obs = Some(secs(now - starts[*i].take().unwrap()));
                }
                Op::StopAndRecord(i) | Op::StopAndDiscard(i) => {
                    let rec = matches!(op, Op::StopAndRecord(_));
                    let r = match (timers[*i].take().unwrap(), rec) {
                        (T::S(t), true) => t.stop_and_record(),
                        (T::S(t), false) => t.stop_and_discard(),
                        (T::L(t), true) => t.stop_and_record(),
                        (T::L(t), false) => t.stop_and_discard(),
                    };
                    let e = secs(now - starts[*i].take().unwrap());
                    note = format!(" returned {} (model {})", r, e);
                    if r != e {
                        tr.push(format!("{:?}{}", op, note));
                        result = Err(Disagreement { signature: format!("{}:returned-duration", opn(op)), what: format!("step {} {:?}: returned {} s, clock says {} s", step, op, r, e), transcript: tr.clone() });
                        break;
                    }
                    if rec {
                        expect_obs = Some(e);
                    }
                }
                Op::Drop(i) => {
                    drop(timers[*i].take());
                    expect_obs = Some(secs(now - starts[*i].take().unwrap()));
                }
                Op::DropUnwinding(i) => {
                    struct Guard(Option<T>);
                    impl Drop for Guard {
                        fn drop(&mut self) {
                            drop(self.0.take());
                        }
                    }
                    let g = Guard(timers[*i].take());
                    let _ = std::panic::catch_unwind(std::panic::AssertUnwindSafe(move || {
                        let _g = g;
                        std::panic::resume_unwind(Box::new("deliberate unwinding"));
                    }));
                    expect_obs = Some(secs(now - starts[*i].take().unwrap()));
                }
                Op::DropOnThread(i) => {
                    let t = timers[*i].take().unwrap();
                    match t {
                        T::S(t) => {
                            let n = now;
                            std::thread::spawn(move || {
                                set_thread_clock_nanos(Some(n));
                                drop(t);
                            })
                            .join()
                            .unwrap();
                        }
                        // a local timer is !Send: "another thread" does not exist for it
                        T::L(t) => drop(t),
                    }
                    expect_obs = Some(secs(now - starts[*i].take().unwrap()));
                }
                Op::Closure(k) => {
                    let d = TICKS[*k];
                    let f = || {
                        now += d;
                        set_thread_clock_nanos(Some(now));
                        42u32
                    };
                    let r = match &local {
                        // stays pending in the local histogram until FlushLocal
                        Some(l) => l.observe_closure_duration(f),
                        None => shared.observe_closure_duration(f),
                    };
                    if r != 42 {
                        result = Err(Disagreement { signature: "closure:result".into(), what: format!("step {}: closure result {} not returned", step, r), transcript: tr.clone() });
                        break;
                    }
                    if local.is_some() {
                        p_count += 1;
                        p_sum += secs(d);
                        if secs(d) <= 1.0 {
                            p_lo += 1;
                        }
                    } else {
                        expect_obs = Some(secs(d));
                    }
                }
                Op::Tick(k) => {
                    now += TICKS[*k];
                    set_thread_clock_nanos(Some(now));
                }
                Op::FlushLocal => {
                    local.as_ref().unwrap().flush();
                    m_count += p_count;
                    m_sum += p_sum;
                    m_lo += p_lo;
                    p_count = 0;
                    p_sum = 0.0;
                    p_lo = 0;
                }
            }
            if let Some(v) = expect_obs {
                m_count += 1;
                m_sum += v;
                if v <= 1.0 {
                    m_lo += 1;
                }
            }
            let mf = shared.collect();
            let h = mf[0].get_metric()[0].get_histogram().clone();
            let got = (h.get_sample_count(), h.get_sample_sum(), h.get_bucket()[0].cumulative_count());
            tr.push(format!("{:?}{}: histogram impl {:?} / model {:?}", op, note, got, (m_count, m_sum, m_lo)));
            if let Some(l) = &local {
                if (l.get_sample_count(), l.get_sample_sum()) != (p_count, p_sum) {
                    result = Err(Disagreement {
                        signature: format!("local:{}:pending-of-parent-local", opn(op)),
                        what: format!("step {} {:?}: parent local histogram holds (count,sum) = {:?}, expected {:?}", step, op, (l.get_sample_count(), l.get_sample_sum()), (p_count, p_sum)),
                        transcript: tr.clone(),
                    });
                    break;
                }
            }
            if got != (m_count, m_sum, m_lo) {
                let kind = if got.0 > m_count { "extra-observation" } else if got.0 < m_count { "missing-observation" } else { "wrong-duration" };
                result = Err(Disagreement {
                    signature: format!("{}:{}:{}", if self.local { "local" } else { "shared" }, opn(op), kind),
                    what: format!("step {} {:?}: histogram (count,sum,le1) = {:?}, expected {:?}", step, op, got, (m_count, m_sum, m_lo)),
                    transcript: tr.clone(),
                });
                break;
            }
        }
        // live timers are dropped here under the same clock; not judged further
        drop(timers);
        set_thread_clock_nanos(None);
        result?;
        Ok(format!("{}|{:?}|{}|{}|{}|{}|{}", now, starts, m_count, m_sum, m_lo, p_count, p_sum))
    }
}

fn opn(o: &Op) -> String {
    format!("{:?}", o).split('(').next().unwrap().to_string()
}

fn main() {
    let args = parse_args();
    quiet_panics();
    let mut rep = Report::new("C18", &args);
    let thorough = args.tier == Tier::Thorough;
    if let Some(p) = &args.replay {
        let doc = read_replay(p);
        let local = doc["model"].as_str().unwrap_or("").contains("local");
        std::process::exit(replay_cli("C18", p, &doc, &TimerSut { local, merge: false }));
    }
    let d = if thorough { 6 } else { 5 };
    let md = if thorough { 9 } else { 7 };
    rep.rule = format!("explicit-state BFS (stateright) over all histories up to depth {} (no merging) and depth {} (merging equal (clock, start times, histogram) states) of {{start, observe_duration, stop_and_record, stop_and_discard, drop, drop during unwinding, drop on a spawned-and-joined thread, observe_closure_duration (clock moves inside the closure), tick(+0.5s/-1s/+2s)}} over <=3 timers, for timers of a shared Histogram and of a LocalHistogram; virtual clock through the verif time seam; after every step the shared histogram must have grown by exactly one observation of max(now-start,0) seconds, or by none. distinct = unique states", d, md);
    rep.bounds = json!({"depth_unmerged": d, "depth_merged": md, "timers": TIMERS, "ticks_ns": TICKS});
    let t = if thorough { 900 } else { 100 };
    explore(TimerSut { local: false, merge: false }, d, t, "shared-timers", &mut rep);
    explore(TimerSut { local: true, merge: false }, d, t, "local-timers", &mut rep);
    explore(TimerSut { local: false, merge: true }, md, t, "merged:shared-timers", &mut rep);
    explore(TimerSut { local: true, merge: true }, md, t, "merged:local-timers", &mut rep);
    rep.exhaustive = rep.cap_hit.is_none();
    rep.assumptions = vec![
        "time is the virtual clock of the verif seam (crate::verif::time::Instant); the coarse clock of the `nightly` feature is not built".into(),
        "a LocalHistogramTimer is !Send, so drop-on-another-thread degenerates to drop for local timers".into(),
    ];
    std::process::exit(rep.finish());
}
