//! C02 — histogram drivers under engine E1 (see histdrv.rs and DESIGN.md section 6).

use serde_json::json;
use verif_harness::histdrv::*;
use verif_harness::vsched::*;
use verif_harness::*;

fn main() {
    let args = parse_args();
    quiet_panics();
    let mut rep = Report::new("C02", &args);
    let thorough = args.tier == Tier::Thorough;
    if let Some(p) = &args.replay {
        let doc = read_replay(p);
        std::process::exit(replay_cli("C02", p, &doc, verif_harness::histdrv::driver_from_spec));
    }
    let plan = driver_set(Prop::C02, thorough);
    let labels: Vec<String> = plan.iter().map(|p| format!("{} ({:?})", p.driver.label, p.mode)).collect();
    rep.rule = format!("stateless exploration (vsched) of all interleavings at atomic/lock operations and call boundaries of histogram drivers (buckets {:?}; observations are distinct powers of two so every snapshot sum names its set of observations; each driver from 3 start states: fresh / after observe+collect / after two collections with observations and a local batch in between). Mode U = unbounded with sleep sets; Mode B(k) = all schedules with <=k preemptions; deviation: at most one spurious compare_exchange_weak failure per execution (thorough: every Mode-U driver; quick: the Mode-U drivers with <=3 calls). Drivers: {:?}. distinct = distinct (snapshot sets, real-time relation) outcomes", BOUNDS, labels);
    rep.bounds = json!({"threads": "2-4", "collections": "1-4", "buckets": BOUNDS, "drivers": plan.len()});
    let cap = if thorough { 1_500_000 } else { 150_000 };
    let results = run_set(plan, cap, if thorough { 3 } else { 2 });
    let summary = fold_results(&mut rep, results);
    rep.extra.insert("modes".into(), summary);
    rep.assumptions = vec![
        "explored executions are sequentially consistent interleavings in program order; weak-memory behaviour of the count hand-off is covered by the happens-before audit (C02) of the orderings the code passes, not by enumeration of weak executions".into(),
        "Mode B results hold up to the stated preemption bound".into(),
    ];
    std::process::exit(rep.finish());
}
