//! C19 — static-metric accessors address exactly the declared label values.
//! E3 over generated programs: every declaration of a bounded grammar is written
//! into generated crates (harness/gen/c19, regenerated on every run), compiled
//! against /repo (prometheus + prometheus-static-metric) and executed.

use serde_json::json;
use std::collections::BTreeMap;
use std::fmt::Write as _;
use std::process::Command;
use verif_harness::*;

#[derive(Clone, Copy, Debug, PartialEq, Eq)]
enum Kind {
    Inline,
    InlineRenamed,
    Enum,
    EnumRenamed,
    /// inline list in which the second value is a second name for the first one (`a, b: "a"`)
    InlineAliased,
    /// label_enum with such an alias
    EnumAliased,
}
const KINDS: [Kind; 6] = [Kind::Inline, Kind::InlineRenamed, Kind::Enum, Kind::EnumRenamed, Kind::InlineAliased, Kind::EnumAliased];

#[derive(Clone, Debug)]
struct Label {
    key: String,
    kind: Kind,
    /// (identifier, label value string)
    values: Vec<(String, String)>,
}

#[derive(Clone, Copy, Debug, PartialEq, Eq)]
struct Form {
    ty: &'static str,
    auto: bool,
}

const FORMS: [Form; 11] = [
    Form { ty: "Counter", auto: false },
    Form { ty: "IntCounter", auto: false },
    Form { ty: "Gauge", auto: false },
    Form { ty: "IntGauge", auto: false },
    Form { ty: "Histogram", auto: false },
    Form { ty: "LocalCounter", auto: false },
    Form { ty: "LocalIntCounter", auto: false },
    Form { ty: "LocalHistogram", auto: false },
    Form { ty: "LocalCounter", auto: true },
    Form { ty: "LocalIntCounter", auto: true },
    Form { ty: "LocalHistogram", auto: true },
];

#[derive(Clone, Debug)]
struct Decl {
    id: usize,
    form: Form,
    labels: Vec<Label>,
    perm: Vec<usize>,
}

const SAFE_IDS: [&str; 8] = ["a", "b", "c", "d", "m", "coll", "value", "e"];
const RENAMES: [&str; 3] = ["A", "a b", "\u{e9}"];

fn mk_label(li: usize, kind: Kind, nvals: usize, rot: usize, ids: &[&str]) -> Label {
    let mut values: Vec<(String, String)> = vec![];
    for v in 0..nvals {
        let ident = ids[(rot + li * 3 + v) % ids.len()].to_string();
        // renamed kinds rename the first value (and the third, if any)
        let renamed = matches!(kind, Kind::InlineRenamed | Kind::EnumRenamed) && v % 2 == 0;
        let mut s = if renamed { RENAMES[(rot + v / 2) % RENAMES.len()].to_string() } else { ident.clone() };
        if matches!(kind, Kind::InlineAliased | Kind::EnumAliased) && v == 1 {
            s = values[0].1.clone();
        }
        values.push((ident, s));
    }
    Label { key: format!("l{}", li), kind, values }
}

impl Decl {
    fn vec_type(&self) -> String {
        format!("{}Vec", self.form.ty.trim_start_matches("Local"))
    }
    fn is_hist(&self) -> bool {
        self.form.ty.contains("Histogram")
    }
    fn is_local(&self) -> bool {
        self.form.ty.starts_with("Local")
    }
    fn describe(&self) -> String {
        format!(
            "{}{} {{ {} }} vec labels {:?}",
            if self.form.auto { "auto-flush " } else { "" },
            self.form.ty,
            self.labels.iter().map(|l| format!("{:?} => {:?} {:?}", l.key, l.kind, l.values)).collect::<Vec<_>>().join(", "),
            self.perm.iter().map(|&i| self.labels[i].key.clone()).collect::<Vec<_>>()
        )
    }

    fn macro_text(&self) -> String {
        let mut s = String::new();
        let mac = if self.form.auto { "make_auto_flush_static_metric" } else { "make_static_metric" };
        let _ = writeln!(s, "    {}! {{", mac);
        for (li, l) in self.labels.iter().enumerate() {
            if matches!(l.kind, Kind::Enum | Kind::EnumRenamed | Kind::EnumAliased) {
                let _ = writeln!(s, "        pub label_enum E{} {{", li);
                for (id, val) in &l.values {
                    if id == val {
                        let _ = writeln!(s, "            {},", id);
                    } else {
                        let _ = writeln!(s, "            {}: {:?},", id, val);
                    }
                }
                let _ = writeln!(s, "        }}");
            }
        }
        let _ = writeln!(s, "        pub struct S: {} {{", self.form.ty);
        for (li, l) in self.labels.iter().enumerate() {
            if matches!(l.kind, Kind::Enum | Kind::EnumRenamed | Kind::EnumAliased) {
                let _ = writeln!(s, "            {:?} => E{},", l.key, li);
            } else {
                let _ = writeln!(s, "            {:?} => {{", l.key);
                for (id, val) in &l.values {
                    if id == val {
                        let _ = writeln!(s, "                {},", id);
                    } else {
                        let _ = writeln!(s, "                {}: {:?},", id, val);
                    }
                }
                let _ = writeln!(s, "            }},");
            }
        }
        let _ = writeln!(s, "        }}\n    }}");
        s
    }

    fn leaf_op(&self, amount: u64) -> String {
        match self.form.ty.trim_start_matches("Local") {
            "Counter" => format!("inc_by({}u64 as f64)", amount),
            "IntCounter" => format!("inc_by({}u64)", amount),
            "Gauge" => format!("add({}u64 as f64)", amount),
            "IntGauge" => format!("add({}i64)", amount),
            _ => format!("observe({}u64 as f64)", amount),
        }
    }

    fn module(&self) -> String {
        let mut s = String::new();
        let id = self.id;
        let _ = writeln!(s, "pub mod d{} {{\n    #![allow(non_camel_case_types, dead_code, unused_imports)]\n    use prometheus::*;\n    use prometheus::local::*;\n    use prometheus_static_metric::*;\n    use super::support::*;\n    use std::collections::BTreeMap;", id);
        s.push_str(&self.macro_text());
        let vec_labels: Vec<String> = self.perm.iter().map(|&i| format!("{:?}", self.labels[i].key)).collect();
        let opts = if self.is_hist() { format!("HistogramOpts::new(\"m{}\", \"h\")", id) } else { format!("Opts::new(\"m{}\", \"h\")", id) };
        if self.form.auto {
            let _ = writeln!(s, "    lazy_static::lazy_static! {{\n        pub static ref VEC: {vt} = {vt}::new({opts}, &[{labels}]).unwrap();\n        pub static ref AF: S = auto_flush_from!(VEC, S);\n    }}", vt = self.vec_type(), opts = opts, labels = vec_labels.join(", "));
        }
        let _ = writeln!(s, "    pub fn run() {{");
        if self.form.auto {
            let _ = writeln!(s, "        let vec: &{} = &VEC;\n        let s: &S = &AF;", self.vec_type());
        } else {
            let _ = writeln!(s, "        let vec = {vt}::new({opts}, &[{labels}]).unwrap();\n        let s = S::from(&vec);", vt = self.vec_type(), opts = opts, labels = vec_labels.join(", "));
        }
        let _ = writeln!(s, "        let mut exp: BTreeMap<Key, f64> = BTreeMap::new();\n        let mut none_ok = true;");
        // all leaf paths
        let dims: Vec<usize> = self.labels.iter().map(|l| l.values.len()).collect();
        let mut bit = 0u32;
        for path in combi::product(&dims) {
            let fields: Vec<&str> = path.iter().enumerate().map(|(li, &vi)| self.labels[li].values[vi].0.as_str()).collect();
            let strs: Vec<(&str, &str)> = path.iter().enumerate().map(|(li, &vi)| (self.labels[li].key.as_str(), self.labels[li].values[vi].1.as_str())).collect();
            let mut total = 0u64;
            // (1) field path
            let a1 = 1u64 << bit;
            bit += 1;
            total += a1;
            let _ = writeln!(s, "        s.{}.{};", fields.join("."), self.leaf_op(a1));
            // (2) get(enum) wherever the label is an enum reference
            if self.labels.iter().any(|l| matches!(l.kind, Kind::Enum | Kind::EnumRenamed | Kind::EnumAliased)) {
                let a2 = 1u64 << bit;
                bit += 1;
                total += a2;
                let mut chain = String::from("s");
                for (li, &vi) in path.iter().enumerate() {
                    let l = &self.labels[li];
                    if matches!(l.kind, Kind::Enum | Kind::EnumRenamed | Kind::EnumAliased) {
                        let _ = write!(chain, ".get(E{}::{})", li, l.values[vi].0);
                    } else {
                        let _ = write!(chain, ".{}", l.values[vi].0);
                    }
                }
                let _ = writeln!(s, "        {}.{};", chain, self.leaf_op(a2));
            }
            // (3) try_get(str) chain (the auto-flush form does not generate try_get)
            if !self.form.auto {
                let a3 = 1u64 << bit;
                bit += 1;
                total += a3;
                let mut chain = String::from("s");
                for (_, v) in &strs {
                    let _ = write!(chain, ".try_get({:?}).unwrap()", v);
                }
                let _ = writeln!(s, "        {}.{};", chain, self.leaf_op(a3));
            }
            let _ = writeln!(s, "        *exp.entry(key(&{:?})).or_insert(0.0) += {}u64 as f64;", strs, total);
        }
        assert!(bit <= 52, "too many leaves for exact sums");
        if !self.form.auto {
            // undeclared values at every level
            let mut chain = String::from("s");
            for l in &self.labels {
                let _ = writeln!(s, "        none_ok &= {}.try_get(\"__undeclared__\").is_none();", chain);
                // an identifier that was renamed is not a declared value any more
                for (idn, val) in &l.values {
                    if idn != val && !l.values.iter().any(|(_, v)| v == idn) {
                        let _ = writeln!(s, "        none_ok &= {}.try_get({:?}).is_none();", chain, idn);
                    }
                }
                let _ = write!(chain, ".{}", l.values[0].0);
            }
        }
        if self.is_local() {
            let _ = writeln!(s, "        s.flush();");
        }
        let _ = writeln!(s, "        report({:?}, {}, collect_map({}vec), exp, none_ok);\n    }}\n}}\n", self.describe(), id, if self.form.auto { "" } else { "&" });
        s
    }
}

fn declarations(thorough: bool) -> Vec<Decl> {
    let mut out = vec![];
    let mut rot = 0usize;
    let mut push = |form: Form, labels: Vec<Label>, perm: Vec<usize>, out: &mut Vec<Decl>| {
        let id = out.len();
        out.push(Decl { id, form, labels, perm });
    };
    for (fi, &form) in FORMS.iter().enumerate() {
        // L = 1
        for &k in &KINDS {
            for nv in 1..=if thorough { 3 } else { 2 } {
                rot += 1;
                push(form, vec![mk_label(0, k, nv, rot, &SAFE_IDS)], vec![0], &mut out);
            }
        }
        // L = 2: all kind pairs with V=(2,2); the kind diagonal with the other V combinations; all permutations
        for (i0, &k0) in KINDS.iter().enumerate() {
            for (i1, &k1) in KINDS.iter().enumerate() {
                let vcombos: Vec<(usize, usize)> = if i0 == i1 || thorough { vec![(2, 2), (1, 2), (2, 1), (1, 1)] } else { vec![(2, 2)] };
                // quick: every form sees every kind pair, but off-diagonal pairs are spread over the forms
                if !thorough && i0 != i1 && (i0 * 6 + i1 + fi) % 4 != 0 {
                    continue;
                }
                for (v0, v1) in vcombos {
                    for perm in combi::permutations(2) {
                        rot += 1;
                        push(form, vec![mk_label(0, k0, v0, rot, &SAFE_IDS), mk_label(1, k1, v1, rot, &SAFE_IDS)], perm, &mut out);
                    }
                }
            }
        }
        if thorough {
            // L = 3, V = 2: all kind triples over 3 kinds, all 6 permutations
            for &k0 in &KINDS[..3] {
                for &k1 in &KINDS[1..4] {
                    for &k2 in &[Kind::Inline, Kind::EnumRenamed, Kind::InlineAliased] {
                        for perm in combi::permutations(3) {
                            rot += 1;
                            push(form, vec![mk_label(0, k0, 2, rot, &SAFE_IDS), mk_label(1, k1, 2, rot, &SAFE_IDS), mk_label(2, k2, 2, rot, &SAFE_IDS)], perm, &mut out);
                        }
                    }
                }
            }
            // L = 4, V = 2: uniform kind, all 24 permutations (3 access paths x 16 leaves = 48 bits)
            for &k in &KINDS {
                for perm in combi::permutations(4) {
                    rot += 1;
                    push(form, (0..4).map(|li| mk_label(li, k, 2, rot, &SAFE_IDS)).collect(), perm, &mut out);
                }
            }
        } else if fi % 3 == 0 {
            // quick: a few 3-label declarations
            for perm in combi::permutations(3) {
                rot += 1;
                push(form, vec![mk_label(0, Kind::EnumRenamed, 2, rot, &SAFE_IDS), mk_label(1, Kind::Inline, 2, rot, &SAFE_IDS), mk_label(2, Kind::InlineRenamed, 2, rot, &SAFE_IDS)], perm, &mut out);
            }
        }
    }
    out
}

/// Identifiers that are local names inside the generated code of the two builders.
const PROBE_IDS: [&str; 11] = ["x", "root", "inner", "branch_offset", "offset1", "offset2", "label_0", "delegator", "last_flush", "flush_millis", "res"];

fn probe_decls(ident: &'static str, base: usize) -> Vec<Decl> {
    let mut out = vec![];
    let forms = [Form { ty: "LocalIntCounter", auto: true }, Form { ty: "LocalHistogram", auto: true }, Form { ty: "Counter", auto: false }, Form { ty: "LocalCounter", auto: false }];
    for form in forms {
        // the identifier as first / last value of the first / second label
        for (li, pos) in [(0usize, 0usize), (0, 1), (1, 0), (1, 1)] {
            let mut labels = vec![mk_label(0, Kind::Inline, 2, 0, &["p", "q", "r", "s", "t", "u", "v", "w"]), mk_label(1, Kind::EnumRenamed, 2, 1, &["p", "q", "r", "s", "t", "u", "v", "w"])];
            let old = labels[li].values[pos].0.clone();
            let was_plain = labels[li].values[pos].1 == old;
            labels[li].values[pos].0 = ident.to_string();
            if was_plain {
                labels[li].values[pos].1 = ident.to_string();
            }
            let id = base + out.len();
            out.push(Decl { id, form, labels, perm: vec![1, 0] });
        }
    }
    out
}

fn write_crate(dir: &str, name: &str, decls: &[Decl]) {
    std::fs::create_dir_all(format!("{}/{}/src", dir, name)).unwrap();
    let mut src = String::from("// GENERATED by harness/src/bin/c19.rs — do not edit.\n#![allow(clippy::all)]\npub mod support {\n    include!(\"/verif/harness/c19/support.rs\");\n}\n\n");
    for d in decls {
        src.push_str(&d.module());
    }
    src.push_str("fn main() {\n    std::panic::set_hook(Box::new(|_| {}));\n");
    for d in decls {
        let _ = writeln!(src, "    if std::panic::catch_unwind(|| d{id}::run()).is_err() {{ println!(\"BAD\\t{id}\\tpanic\\tdeclaration panicked at run time\\t{{}}\", {desc:?}); }}", id = d.id, desc = d.describe());
    }
    src.push_str("    println!(\"END\");\n}\n");
    std::fs::write(format!("{}/{}/src/main.rs", dir, name), src).unwrap();
    std::fs::write(
        format!("{}/{}/Cargo.toml", dir, name),
        format!("[package]\nname = \"{}\"\nversion = \"0.1.0\"\nedition = \"2021\"\npublish = false\n\n[dependencies]\nprometheus = {{ path = \"/repo\", features = [\"verif\"] }}\nprometheus-static-metric = {{ path = \"/repo/static-metric\" }}\nlazy_static = \"1\"\n", name),
    )
    .unwrap();
}

fn main() {
    let args = parse_args();
    let mut rep = Report::new("C19", &args);
    let thorough = args.tier == Tier::Thorough;
    if let Some(p) = &args.replay {
        let doc = read_replay(p);
        println!("declaration: {}\n{}", doc["declaration"], doc["detail"]);
    }
    let decls = declarations(thorough);
    let dir = "/verif/harness/gen/c19";
    let _ = std::fs::remove_dir_all(dir);
    std::fs::create_dir_all(format!("{}/.cargo", dir)).unwrap();
    std::fs::write(format!("{}/.cargo/config.toml", dir), "[net]\noffline = true\n").unwrap();
    // split the safe-identifier declarations over several crates (parallel compilation)
    let ncrates = if thorough { 16 } else { 8 };
    let mut members: Vec<(String, Vec<Decl>, Option<&'static str>)> = vec![];
    for c in 0..ncrates {
        let part: Vec<Decl> = decls.iter().filter(|d| d.id % ncrates == c).cloned().collect();
        members.push((format!("c19main{}", c), part, None));
    }
    let mut base = decls.len();
    for id in PROBE_IDS {
        let p = probe_decls(id, base);
        base += p.len();
        members.push((format!("c19probe_{}", id), p, Some(id)));
    }
    for (name, part, _) in &members {
        write_crate(dir, name, part);
    }
    std::fs::write(
        format!("{}/Cargo.toml", dir),
        format!("[workspace]\nresolver = \"2\"\nmembers = [{}]\n\n[profile.release]\nopt-level = 0\ndebug = false\ndebug-assertions = true\nincremental = false\n", members.iter().map(|(n, _, _)| format!("{:?}", n)).collect::<Vec<_>>().join(", ")),
    )
    .unwrap();
    let _ = std::fs::copy("/repo/Cargo.lock", format!("{}/Cargo.lock", dir));
    let total: usize = members.iter().map(|(_, p, _)| p.len()).sum();
    rep.rule = format!("generated programs: {} declarations of the grammar — metric form in {{Counter, IntCounter, Gauge, IntGauge, Histogram, LocalCounter, LocalIntCounter, LocalHistogram}} under make_static_metric! and {{LocalCounter, LocalIntCounter, LocalHistogram}} under make_auto_flush_static_metric! (+ auto_flush_from!); 1..{} labels, each inline / inline-renamed / label_enum / label_enum-renamed / inline or enum with a second name for the first value (alias) with 1..{} values; every permutation of the label names in the backing vector; value identifiers rotated over {:?}; plus {} probe declarations using each local name of the generated code ({:?}) as a value identifier in every position. Each declaration is compiled and run: every leaf is updated by a distinct power of two through the field path, the get(enum) path and the try_get(str) path, local forms are flushed, and vec.collect() must show exactly the declared children with exactly their amounts; try_get of undeclared strings must be None. distinct = distinct (declaration shape, children) results", decls.len(), if thorough { 4 } else { 3 }, if thorough { 3 } else { 2 }, SAFE_IDS, total - decls.len(), PROBE_IDS);
    rep.bounds = json!({"declarations": decls.len(), "probe_declarations": total - decls.len(), "crates": members.len()});
    let out = Command::new("cargo")
        .args(["build", "--release", "--offline", "--workspace", "--keep-going"])
        .current_dir(dir)
        .env("CARGO_TARGET_DIR", "/verif/harness/target/c19gen")
        .env("CARGO_NET_OFFLINE", "true")
        .output()
        .expect("cargo");
    let stderr = String::from_utf8_lossy(&out.stderr).to_string();
    if stderr.contains("could not compile `prometheus`") || stderr.contains("could not compile `prometheus-static-metric`") {
        eprintln!("BUILD-FAILED (repository crates):\n{}", stderr.chars().take(3000).collect::<String>());
        std::process::exit(2);
    }
    let by_id: BTreeMap<usize, &Decl> = members.iter().flat_map(|(_, p, _)| p.iter()).map(|d| (d.id, d)).collect();
    for (name, part, probe) in &members {
        let bin = format!("/verif/harness/target/c19gen/release/{}", name);
        let failed = stderr.contains(&format!("could not compile `{}`", name));
        if failed || !std::path::Path::new(&bin).exists() {
            // find the first compiler error that belongs to this crate
            let excerpt: String = stderr
                .split("error")
                .filter(|b| b.contains(&format!("{}/src/main.rs", name)))
                .take(2)
                .map(|b| format!("error{}", b.lines().take(6).collect::<Vec<_>>().join(" | ")))
                .collect::<Vec<_>>()
                .join(" || ");
            rep.evaluations += part.len() as u64;
            let (sig, what) = match probe {
                Some(id) => (format!("does-not-compile:value-identifier-{}", id), format!("declarations using the value identifier `{}` do not compile: {}", id, excerpt)),
                None => ("does-not-compile:grammar-declaration".to_string(), format!("crate {} with {} legal declarations does not compile: {}", name, part.len(), excerpt)),
            };
            rep.outcome(format!("VIOL|{}", sig));
            rep.violation(sig, what.clone(), json!({"engine":"enum","declaration": part.first().map(|d| d.macro_text()), "detail": what}));
            continue;
        }
        let run = match run_with_timeout(&mut Command::new(&bin), 300) {
            Ok(r) => r,
            Err(e) => {
                rep.violation(format!("generated-program-hung:{}", name), format!("{} {}", name, e), json!({"detail": e}));
                continue;
            }
        };
        let text = String::from_utf8_lossy(&run.stdout).to_string();
        if !run.status.success() || !text.trim_end().ends_with("END") {
            rep.violation(format!("generated-program-crashed:{}", name), format!("{} exited with {:?}", name, run.status.code()), json!({"detail": "crash"}));
            continue;
        }
        for line in text.lines() {
            let f: Vec<&str> = line.split('\t').collect();
            match f[0] {
                "OK" => {
                    rep.evaluations += 1;
                    rep.transitions += 3 * f[2].parse::<u64>().unwrap_or(1);
                    let d = by_id[&f[1].parse::<usize>().unwrap()];
                    rep.outcome(format!("{:?}|{:?}|{:?}|{}", d.form, d.labels.iter().map(|l| (l.kind, l.values.len())).collect::<Vec<_>>(), d.perm, f[2]));
                    if rep.evaluations % 97 == 5 {
                        rep.sample(json!({"declaration": d.macro_text(), "vec_label_order": d.perm, "children": f[2]}));
                    }
                }
                "BAD" => {
                    rep.evaluations += 1;
                    let d = by_id[&f[1].parse::<usize>().unwrap()];
                    let sig = format!("{}:{}{}", f[2], if d.form.auto { "auto-flush:" } else { "" }, d.form.ty);
                    rep.outcome(format!("VIOL|{}", sig));
                    rep.violation(sig, format!("{}: {}", d.describe(), f[3]), json!({"engine":"enum","declaration": d.macro_text(), "vec_label_order": d.perm, "detail": f[3]}));
                }
                _ => {}
            }
        }
    }
    rep.states = rep.evaluations;
    rep.traces = rep.evaluations;
    rep.assumptions = vec!["the 1 s auto-flush timer is irrelevant to totals (everything is flushed explicitly)".into(), "labels <= 4 and values <= 3 per label; renamed strings from a pool of three".into()];
    std::process::exit(rep.finish());
}
