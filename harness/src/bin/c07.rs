//! C07 — gather() is complete, canonically ordered and deterministic.
//! E3: collector subsets x registration orders x registry-internal iteration
//! orders x common-label map iteration orders x registry configurations.

use serde_json::json;
use std::collections::BTreeMap;
use std::sync::Mutex;
use verif_harness::gatherenum::*;
use verif_harness::refmodel::*;
use verif_harness::*;

fn compare(got: &[RFamily], exp: &[RFamily]) -> Option<(String, String)> {
    let names: Vec<&String> = got.iter().map(|f| &f.name).collect();
    if names.windows(2).any(|w| w[0] >= w[1]) {
        return Some(("families-not-strictly-increasing".into(), format!("family names {:?}", names)));
    }
    if got.len() != exp.len() || got.iter().zip(exp).any(|(g, e)| g.name != e.name) {
        return Some(("family-set".into(), format!("families {:?}, expected {:?}", names, exp.iter().map(|f| &f.name).collect::<Vec<_>>())));
    }
    for (g, e) in got.iter().zip(exp) {
        if g.help != e.help || g.typ != e.typ {
            return Some(("help-or-type".into(), format!("family {}: help {:?} type {:?}, expected {:?} {:?}", g.name, g.help, g.typ, e.help, e.typ)));
        }
        if g.metrics.len() != e.metrics.len() {
            return Some(("sample-count".into(), format!("family {}: {} samples, expected {}", g.name, g.metrics.len(), e.metrics.len())));
        }
        for (gm, em) in g.metrics.iter().zip(&e.metrics) {
            let mut gl = gm.labels.clone();
            let mut el = em.labels.clone();
            gl.sort();
            el.sort();
            if gl != el {
                // distinguish a wrong order of samples from a wrong label set
                let same_set = g.metrics.iter().any(|x| {
                    let mut l = x.labels.clone();
                    l.sort();
                    l == el
                });
                let class = if same_set { "sample-order" } else { "sample-labels" };
                return Some((class.into(), format!("family {}: sample labels {:?}, expected {:?} at this position (samples must be ordered lexicographically by label values)", g.name, gm.labels, em.labels)));
            }
            let mut g2 = gm.clone();
            let mut e2 = em.clone();
            g2.labels.clear();
            e2.labels.clear();
            if g2.key(true) != e2.key(true) {
                return Some(("sample-value".into(), format!("family {}: sample {:?} is {}, expected {}", g.name, gm.labels, g2.key(true), e2.key(true))));
            }
        }
    }
    None
}

fn main() {
    let args = parse_args();
    quiet_panics();
    let mut rep = Report::new("C07", &args);
    let thorough = args.tier == Tier::Thorough;
    if let Some(p) = &args.replay {
        let doc = read_replay(p);
        println!("members {} config {} : {}", doc["members"], doc["config"], doc["detail"]);
    }
    let max_size = if thorough { 4 } else { 3 };
    let members = c07_members();
    let subsets: Vec<Vec<usize>> = combi::subsets(members.len(), 1, max_size).into_iter().map(|s| s.iter().map(|&i| members[i]).collect()).collect();
    rep.rule = format!("collector pool {:?}; all subsets of size <= {} x all registration orders (for sizes up to 3, thorough 4; one order above) x all registry-internal collect orders (observed through a Spy collector; fresh registries are rebuilt until all m! orders have been seen) x all iteration orders of the caller's common-label HashMap x 6 registry configurations (plain, prefix, 1/2/3 common labels incl. names sorting before and after the metrics' own labels, prefix+2); each gather() compared with the reference gather, then the first registered collector is unregistered and gather() compared again; all results for one (subset, config) must be identical. distinct = distinct canonical results", c07_members().iter().map(|i| POOL[*i].name).collect::<Vec<_>>(), max_size);
    rep.bounds = json!({"subset_size": max_size, "pool": c07_members().len(), "configs": configs().len()});
    let work: Mutex<Vec<Vec<usize>>> = Mutex::new(subsets);
    let reports: Mutex<Vec<Report>> = Mutex::new(vec![]);
    std::thread::scope(|s| {
        for _ in 0..16 {
            s.spawn(|| {
                let mut local = Report::new("C07", &parse_args());
                loop {
                    let members = match work.lock().unwrap().pop() {
                        Some(m) => m,
                        None => break,
                    };
                    for cfg in configs() {
                        let exp = reference_gather(&members, &cfg);
                        let mut dumps: BTreeMap<String, (Vec<usize>, Vec<usize>, Vec<usize>)> = BTreeMap::new();
                        let mut gathers = 0u64;
                        let mut first_bad: Option<(String, String, serde_json::Value)> = None;
                        let r = catch(|| enumerate_orders(&members, &cfg, members.len() <= if thorough { 4 } else { 3 }, &mut gathers, |run| {
                            let got: Vec<RFamily> = run.result.iter().map(RFamily::from_proto).collect();
                            let dump = got.iter().map(|f| f.key(true)).collect::<Vec<_>>().join("\n");
                            dumps.entry(dump).or_insert((run.reg_order.clone(), run.collect_order.clone(), run.label_order.clone()));
                            if first_bad.is_none() {
                                // history: the first registered member is unregistered, then gather again
                                if let Some(e) = &run.unregister_error {
                                    first_bad = Some(("unregister-failed".into(), e.clone(), json!({"engine":"enum","members": run.members, "config": format!("{:?}", run.cfg), "detail": e})));
                                }
                                let rest: Vec<usize> = run.members.iter().cloned().filter(|m| *m != run.unregistered).collect();
                                let exp2 = reference_gather(&rest, &run.cfg);
                                let got2: Vec<RFamily> = run.after_unregister.iter().map(RFamily::from_proto).collect();
                                if first_bad.is_some() {
                                } else if let Some((class, detail)) = compare(&got2, &exp2) {
                                    let detail = format!("after unregistering {:?}: {}", POOL[run.unregistered].name, detail);
                                    first_bad = Some((format!("after-unregister:{}", class), detail.clone(), json!({"engine":"enum","members": run.members, "unregistered": run.unregistered, "config": format!("{:?}", run.cfg), "registration_order": run.reg_order, "detail": detail})));
                                }
                            }
                            if first_bad.is_none() {
                                if let Some((class, detail)) = compare(&got, &exp) {
                                    first_bad = Some((class, detail.clone(), json!({"engine":"enum","members": run.members, "member_names": run.members.iter().map(|i| POOL[*i].name).collect::<Vec<_>>(), "config": format!("{:?}", run.cfg), "registration_order": run.reg_order, "collect_order": run.collect_order, "label_map_order": run.label_order, "detail": detail})));
                                }
                            }
                        }));
                        local.evaluations += gathers;
                        local.transitions += gathers * (members.len() as u64 + 2);
                        let r = match r {
                            Ok(r) => r,
                            Err(p) => {
                                local.violation("panic", format!("members {:?} config {:?}: register/gather/unregister panicked: {}", members, cfg, p), json!({"engine":"enum","members": members, "config": format!("{:?}", cfg), "detail": p}));
                                Ok(())
                            }
                        };
                        if let Err(e) = r {
                            eprintln!("MACHINERY: {}", e);
                            std::process::exit(2);
                        }
                        if let Some((class, detail, replay)) = first_bad {
                            local.violation(format!("{}:common-labels={}", class, cfg.labels.len()), format!("members {:?} config {:?}: {}", members, cfg, detail), replay);
                        }
                        if dumps.len() > 1 {
                            let mut it = dumps.iter();
                            let (d1, o1) = it.next().unwrap();
                            let (d2, o2) = it.next().unwrap();
                            let which = if o1.2 != o2.2 && cfg.labels.len() > 1 { "common-label-map-order" } else { "registration-or-collector-map-order" };
                            local.violation(
                                format!("nondeterministic:{}", which),
                                format!("members {:?} config {:?}: {} different results for the same registered set; e.g. (reg order, collect order, label-map order) {:?} vs {:?}", members, cfg, dumps.len(), o1, o2),
                                json!({"engine":"enum","members": members, "config": format!("{:?}", cfg), "orders_a": format!("{:?}", o1), "orders_b": format!("{:?}", o2), "result_a": d1, "result_b": d2, "detail": "results differ between orders"}),
                            );
                        }
                        for d in dumps.keys() {
                            local.outcome(d);
                        }
                        if local.samples.len() < 2 {
                            local.sample(json!({"members": members.iter().map(|i| POOL[*i].name).collect::<Vec<_>>(), "config": format!("{:?}", cfg), "gathers": gathers, "distinct_results": dumps.len()}));
                        }
                    }
                }
                reports.lock().unwrap().push(local);
            });
        }
    });
    for r in reports.into_inner().unwrap() {
        rep.merge(r);
    }
    rep.states = rep.evaluations;
    rep.traces = rep.evaluations;
    rep.extra.insert("combinations_with_deterministic_collect_order".into(), json!(UNREALISED.load(std::sync::atomic::Ordering::Relaxed)));
    rep.assumptions = vec![
        "iteration orders are realised by rebuilding fresh HashMaps/Registries until every order has been observed; the set of orders covered is the full set".into(),
        "the position of the common labels inside a sample's label list is not prescribed, only that it is the same for every order".into(),
    ];
    std::process::exit(rep.finish());
}
