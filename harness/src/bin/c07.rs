//! C07 — gather() is complete, canonically ordered and deterministic.
//! E3: collector subsets x registration orders x registry-internal iteration
//! orders x common-label map iteration orders x registry configurations.

use serde_json::json;
use std::collections::BTreeMap;
use std::sync::Mutex;
use verif_harness::gatherenum::*;
use verif_harness::refmodel::*;
use verif_harness::*;

fn compare(got: &[RFamily], exp: &[RFamily]) -> Option<(String, String)> {
    let names: Vec<&String> = got.iter().map(|f| &f.name).collect();
    if names.windows(2).any(|w| w[0] >= w[1]) {
        return Some(("families-not-strictly-increasing".into(), format!("family names {:?}", names)));
    }
    if got.len() != exp.len() || got.iter().zip(exp).any(|(g, e)| g.name != e.name) {
        return Some(("family-set".into(), format!("families {:?}, expected {:?}", names, exp.iter().map(|f| &f.name).collect::<Vec<_>>())));
    }
    for (g, e) in got.iter().zip(exp) {
        if g.help != e.help || g.typ != e.typ {
            return Some(("help-or-type".into(), format!("family {}: help {:?} type {:?}, expected {:?} {:?}", g.name, g.help, g.typ, e.help, e.typ)));
        }
        if g.metrics.len() != e.metrics.len() {
            return Some(("sample-count".into(), format!("family {}: {} samples, expected {}", g.name, g.metrics.len(), e.metrics.len())));
        }
        for (gm, em) in g.metrics.iter().zip(&e.metrics) {
            let mut gl = gm.labels.clone();
            let mut el = em.labels.clone();
            gl.sort();
            el.sort();
            if gl != el {
                // distinguish a wrong order of samples from a wrong label set
                let same_set = g.metrics.iter().any(|x| {
                    let mut l = x.labels.clone();
                    l.sort();
                    l == el
                });
                let class = if same_set { "sample-order" } else { "sample-labels" };
                return Some((class.into(), format!("family {}: sample labels {:?}, expected {:?} at this position (samples must be ordered lexicographically by label values)", g.name, gm.labels, em.labels)));
            }
            let mut g2 = gm.clone();
            let mut e2 = em.clone();
            g2.labels.clear();
            e2.labels.clear();
            if g2.key(true) != e2.key(true) {
                return Some(("sample-value".into(), format!("family {}: sample {:?} is {}, expected {}", g.name, gm.labels, g2.key(true), e2.key(true))));
            }
        }
    }
    None
}

fn main() {
    let args = parse_args();
    quiet_panics();
    let mut rep = Report::new("C07", &args);
    let thorough = args.tier == Tier::Thorough;
    if let Some(p) = &args.replay {
        let doc = read_replay(p);
        println!("members {} config {} : {}", doc["members"], doc["config"], doc["detail"]);
    }
    let max_size = if thorough { 4 } else { 3 };
    let members = c07_members();
    let subsets: Vec<Vec<usize>> = combi::subsets(members.len(), 1, max_size).into_iter().map(|s| s.iter().map(|&i| members[i]).collect()).collect();
    rep.rule = format!("collector pool {:?}; all subsets of size <= {} x all registration orders (for sizes up to 3, thorough 4; one order above) x all registry-internal collect orders (observed through a Spy collector; fresh registries are rebuilt until all m! orders have been seen) x all iteration orders of the caller's common-label HashMap x 6 registry configurations (plain, prefix, 1/2/3 common labels incl. names sorting before and after the metrics' own labels, prefix+2); each gather() compared with the reference gather, then the first registered collector is unregistered and gather() compared again; all results for one (subset, config) must be identical; plus wide registries (17..130 counters and a vector with as many children, registered / created in scrambled orders, 6 builds each with whatever internal orders occur — not an enumeration of orders) judged for completeness, name order and label-value order. distinct = distinct canonical results", c07_members().iter().map(|i| POOL[*i].name).collect::<Vec<_>>(), max_size);
    rep.bounds = json!({"subset_size": max_size, "pool": c07_members().len(), "configs": configs().len()});
    let work: Mutex<Vec<Vec<usize>>> = Mutex::new(subsets);
    let reports: Mutex<Vec<Report>> = Mutex::new(vec![]);
    std::thread::scope(|s| {
        for _ in 0..16 {
            s.spawn(|| {
                let mut local = Report::new("C07", &parse_args());
                loop {
                    let members = match work.lock().unwrap().pop() {
                        Some(m) => m,
                        None => break,
                    };
                    for cfg in configs() {
                        let exp = reference_gather(&members, &cfg);
                        let mut dumps: BTreeMap<String, (Vec<usize>, Vec<usize>, Vec<usize>)> = BTreeMap::new();
                        let mut gathers = 0u64;
                        let mut first_bad: Option<(String, String, serde_json::Value)> = None;
                        let r = catch(|| enumerate_orders(&members, &cfg, members.len() <= if thorough { 4 } else { 3 }, &mut gathers, |run| {
                            let got: Vec<RFamily> = run.result.iter().map(RFamily::from_proto).collect();
                            let dump = got.iter().map(|f| f.key(true)).collect::<Vec<_>>().join("\n");
                            dumps.entry(dump).or_insert((run.reg_order.clone(), run.collect_order.clone(), run.label_order.clone()));
                            if first_bad.is_none() {
                                // history: the first registered member is unregistered, then gather again
                                if let Some(e) = &run.unregister_error {
                                    first_bad = Some(("unregister-failed".into(), e.clone(), json!({"engine":"enum","members": run.members, "config": format!("{:?}", run.cfg), "detail": e})));
                                }
                                let rest: Vec<usize> = run.members.iter().cloned().filter(|m| *m != run.unregistered).collect();
                                let exp2 = reference_gather(&rest, &run.cfg);
                                let got2: Vec<RFamily> = run.after_unregister.iter().map(RFamily::from_proto).collect();
                                if first_bad.is_some() {
                                } else if let Some((class, detail)) = compare(&got2, &exp2) {
                                    let detail = format!("after unregistering {:?}: {}", POOL[run.unregistered].name, detail);
                                    first_bad = Some((format!("after-unregister:{}", class), detail.clone(), json!({"engine":"enum","members": run.members, "unregistered": run.unregistered, "config": format!("{:?}", run.cfg), "registration_order": run.reg_order, "detail": detail})));
                                }
                            }
                            if first_bad.is_none() {
                                if let Some((class, detail)) = compare(&got, &exp) {
                                    first_bad = Some((class, detail.clone(), json!({"engine":"enum","members": run.members, "member_names": run.members.iter().map(|i| POOL[*i].name).collect::<Vec<_>>(), "config": format!("{:?}", run.cfg), "registration_order": run.reg_order, "collect_order": run.collect_order, "label_map_order": run.label_order, "detail": detail})));
                                }
                            }
                        }));
                        local.evaluations += gathers;
                        local.transitions += gathers * (members.len() as u64 + 2);
                        let r = match r {
                            Ok(r) => r,
                            Err(p) => {
                                local.violation("panic", format!("members {:?} config {:?}: register/gather/unregister panicked: {}", members, cfg, p), json!({"engine":"enum","members": members, "config": format!("{:?}", cfg), "detail": p}));
                                Ok(())
                            }
                        };
                        if let Err(e) = r {
                            eprintln!("MACHINERY: {}", e);
                            std::process::exit(2);
                        }
                        if let Some((class, detail, replay)) = first_bad {
                            local.violation(format!("{}:common-labels={}", class, cfg.labels.len()), format!("members {:?} config {:?}: {}", members, cfg, detail), replay);
                        }
                        if dumps.len() > 1 {
                            let mut it = dumps.iter();
                            let (d1, o1) = it.next().unwrap();
                            let (d2, o2) = it.next().unwrap();
                            let which = if o1.2 != o2.2 && cfg.labels.len() > 1 { "common-label-map-order" } else { "registration-or-collector-map-order" };
                            local.violation(
                                format!("nondeterministic:{}", which),
                                format!("members {:?} config {:?}: {} different results for the same registered set; e.g. (reg order, collect order, label-map order) {:?} vs {:?}", members, cfg, dumps.len(), o1, o2),
                                json!({"engine":"enum","members": members, "config": format!("{:?}", cfg), "orders_a": format!("{:?}", o1), "orders_b": format!("{:?}", o2), "result_a": d1, "result_b": d2, "detail": "results differ between orders"}),
                            );
                        }
                        for d in dumps.keys() {
                            local.outcome(d);
                        }
                        if local.samples.len() < 2 {
                            local.sample(json!({"members": members.iter().map(|i| POOL[*i].name).collect::<Vec<_>>(), "config": format!("{:?}", cfg), "gathers": gathers, "distinct_results": dumps.len()}));
                        }
                    }
                }
                reports.lock().unwrap().push(local);
            });
        }
    });
    for r in reports.into_inner().unwrap() {
        rep.merge(r);
    }
    // wide registries: many families and many children registered / created in a scrambled order (sizes around the
    // thresholds at which sorting routines switch strategy). The internal collect order cannot be enumerated here
    // (N! orders): each size is built 6 times with whatever orders the hash maps produce; the verdict (sorted, complete,
    // same result every time) does not depend on which ones occurred.
    for &n in &[17usize, 21, 33, 65, 130] {
        for (ci, cfg) in configs().into_iter().enumerate() {
            if ci % 2 == 1 && !thorough {
                continue;
            }
            let mut first: Option<Vec<String>> = None;
            for round in 0..6 {
                rep.evaluations += 1;
                rep.transitions += (2 * n + 2) as u64;
                let r = watchdog::case(|| format!("wide registry n={} cfg={:?}", n, cfg), || catch(|| -> Result<Vec<String>, String> {
                    let lm: Option<std::collections::HashMap<String, String>> = if cfg.labels.is_empty() { None } else { Some(cfg.labels.iter().map(|(a, b)| (a.to_string(), b.to_string())).collect()) };
                    let reg = prometheus::Registry::new_custom(cfg.prefix.map(|s| s.to_string()), lm).map_err(|e| e.to_string())?;
                    let step = [19usize, 23, 29, 31, 37, 41][round]; // coprime to every size
                    let vecf = prometheus::IntCounterVec::new(prometheus::Opts::new("wide_vec", "h"), &["k"]).map_err(|e| e.to_string())?;
                    for j in 0..n {
                        let i = (j * step + round) % n;
                        let c = prometheus::IntCounter::new(format!("w{:03}", i), "h").map_err(|e| e.to_string())?;
                        c.inc_by(i as u64 + 1);
                        reg.register(Box::new(c)).map_err(|e| format!("register w{:03}: {}", i, e))?;
                        vecf.with_label_values(&[&format!("v{:03}", i)]).inc_by(i as u64 + 1);
                    }
                    reg.register(Box::new(vecf)).map_err(|e| e.to_string())?;
                    let got: Vec<RFamily> = reg.gather().iter().map(RFamily::from_proto).collect();
                    let mut common: Vec<(String, String)> = cfg.labels.iter().map(|(a, b)| (a.to_string(), b.to_string())).collect();
                    common.sort();
                    let pre = |s: String| match cfg.prefix { Some(p) => format!("{}_{}", p, s), None => s };
                    let mut exp: Vec<(String, Vec<(Vec<(String, String)>, f64)>)> = (0..n).map(|i| (pre(format!("w{:03}", i)), vec![(common.clone(), (i + 1) as f64)])).collect();
                    exp.push((pre("wide_vec".into()), (0..n).map(|i| { let mut l = vec![("k".to_string(), format!("v{:03}", i))]; l.extend(common.clone()); (l, (i + 1) as f64) }).collect()));
                    exp.sort_by(|a, b| a.0.cmp(&b.0));
                    let shown: Vec<(String, Vec<(Vec<(String, String)>, f64)>)> = got.iter().map(|f| (f.name.clone(), f.metrics.iter().map(|m| (m.labels.clone(), m.counter.unwrap_or(f64::NAN))).collect())).collect();
                    if shown.len() != exp.len() {
                        return Err(format!("{} families gathered, {} registered", shown.len(), exp.len()));
                    }
                    for (g, e) in shown.iter().zip(&exp) {
                        if g.0 != e.0 {
                            return Err(format!("family {:?} where {:?} is expected (families must be sorted by name)", g.0, e.0));
                        }
                        let norm = |v: &Vec<(Vec<(String, String)>, f64)>| -> Vec<(Vec<(String, String)>, u64)> { v.iter().map(|(l, x)| { let mut l = l.clone(); l.sort(); (l, x.to_bits()) }).collect() };
                        let (mut gl, mut el) = (norm(&g.1), norm(&e.1));
                        let order_ok = g.1.iter().map(|(l, _)| l.iter().find(|(k, _)| k == "k").map(|(_, v)| v.clone())).collect::<Vec<_>>() == e.1.iter().map(|(l, _)| l.iter().find(|(k, _)| k == "k").map(|(_, v)| v.clone())).collect::<Vec<_>>();
                        gl.sort();
                        el.sort();
                        if gl != el {
                            return Err(format!("family {:?}: samples differ from what was recorded ({} shown, {} expected)", g.0, gl.len(), el.len()));
                        }
                        if !order_ok {
                            return Err(format!("family {:?}: samples are not sorted by label value", g.0));
                        }
                    }
                    Ok(got.iter().map(|f| f.key(true)).collect())
                }));
                let r = match r {
                    Ok(r) => r,
                    Err(p) => Err(format!("panicked: {}", p)),
                };
                match r {
                    Ok(keys) => {
                        if let Some(f) = &first {
                            if *f != keys {
                                rep.violation("wide-registry:result-depends-on-order", format!("{} families, config {:?}: two builds of the same registry gather differently", n + 1, cfg), json!({"engine":"enum","members": format!("wide({})", n), "config": format!("{:?}", cfg), "detail": "gather result differs between builds"}));
                            }
                        } else {
                            first = Some(keys);
                        }
                        rep.outcome(format!("wide|{}|{}", n, ci));
                    }
                    Err(d) => {
                        rep.violation(format!("wide-registry:{}", if d.contains("sorted") { "not-sorted" } else { "incomplete-or-wrong" }), format!("{} counters + one vector of {} children, config {:?}: {}", n, n, cfg, d), json!({"engine":"enum","members": format!("wide({})", n), "config": format!("{:?}", cfg), "detail": d}));
                        break;
                    }
                }
            }
        }
    }
    rep.states = rep.evaluations;
    rep.traces = rep.evaluations;
    rep.extra.insert("combinations_with_deterministic_collect_order".into(), json!(UNREALISED.load(std::sync::atomic::Ordering::Relaxed)));
    rep.assumptions = vec![
        "iteration orders are realised by rebuilding fresh HashMaps/Registries until every order has been observed; the set of orders covered is the full set".into(),
        "the position of the common labels inside a sample's label list is not prescribed, only that it is the same for every order".into(),
    ];
    std::process::exit(rep.finish());
}
