//! C13 — protobuf exposition decodes to the gathered state.
//! E3: the C04 family generator (all five metric types), multi-family streams,
//! gathered output and encode-call histories, decoded with an independent wire
//! decoder driven by proto/proto_model.proto.

use prometheus::proto::MetricFamily;
use prometheus::{Encoder, ProtobufEncoder};
use serde_json::json;
use verif_harness::gatherenum;
use verif_harness::pbwire::*;
use verif_harness::refmodel::*;
use verif_harness::*;

struct FailAfter(usize);
impl std::io::Write for FailAfter {
    fn write(&mut self, buf: &[u8]) -> std::io::Result<usize> {
        if self.0 == 0 {
            return Err(std::io::Error::new(std::io::ErrorKind::BrokenPipe, "closed"));
        }
        let n = buf.len().min(self.0);
        self.0 -= n;
        Ok(n)
    }
    fn flush(&mut self) -> std::io::Result<()> {
        Ok(())
    }
}

fn check_stream(schema: &Schema, protos: &[MetricFamily], exp: &[RFamily]) -> Result<Vec<u8>, (String, String)> {
    let enc = ProtobufEncoder::new();
    let mut out = Vec::new();
    enc.encode(protos, &mut out).map_err(|e| ("encode-error".to_string(), format!("encode failed: {}", e)))?;
    // append-only
    let mut pre = b"\x00prefix".to_vec();
    enc.encode(protos, &mut pre).map_err(|e| ("encode-error".to_string(), e.to_string()))?;
    if pre[..7] != b"\x00prefix"[..] || pre[7..] != out[..] {
        return Err(("not-append-only".into(), "a pre-filled buffer was not extended by exactly the fresh encoding".into()));
    }
    let msgs = decode_stream(schema, &out).map_err(|e| ("undecodable".to_string(), format!("{} (bytes {:02x?})", e, &out[..out.len().min(120)])))?;
    if msgs.len() != exp.len() {
        return Err(("family-count".into(), format!("{} messages decoded, {} families encoded", msgs.len(), exp.len())));
    }
    for (m, e) in msgs.iter().zip(exp) {
        let g = to_rfamily(m).map_err(|x| ("undecodable".to_string(), x))?;
        if g.key(false) != e.key(false) {
            let class = if g.name != e.name || g.help != e.help {
                "name-or-help"
            } else if g.typ != e.typ {
                "type"
            } else if g.metrics.len() != e.metrics.len() {
                "sample-count"
            } else if g.metrics.iter().zip(&e.metrics).any(|(a, b)| a.labels != b.labels) {
                "labels"
            } else if g.metrics.iter().zip(&e.metrics).any(|(a, b)| a.ts != b.ts) {
                "timestamp"
            } else {
                "value"
            };
            return Err((format!("decode-mismatch:{}", class), format!("decoded {} but encoded {}", g.key(false), e.key(false))));
        }
    }
    Ok(out)
}

fn main() {
    let args = parse_args();
    quiet_panics();
    let mut rep = Report::new("C13", &args);
    let thorough = args.tier == Tier::Thorough;
    let schema = match load_schema("/repo/proto/proto_model.proto") {
        Ok(s) => s,
        Err(e) => {
            eprintln!("MACHINERY: cannot read the .proto file: {}", e);
            std::process::exit(2);
        }
    };
    if schema.messages.len() != 10 || schema.enums.len() != 1 {
        eprintln!("MACHINERY: unexpected schema shape: {} messages {} enums", schema.messages.len(), schema.enums.len());
        std::process::exit(2);
    }
    if let Some(p) = &args.replay {
        let doc = read_replay(p);
        if let Some(k) = doc["help_bytes"].as_u64() {
            let mut f = basis_families()[0].clone();
            f.name = doc["name"].as_str().unwrap_or("m_sweep").into();
            f.help = "h".repeat(k as usize);
            let fams = [RFamily { name: "a_first".into(), ..basis_families()[0].clone() }, f, RFamily { name: "z_last".into(), ..basis_families()[0].clone() }];
            let protos: Vec<MetricFamily> = fams.iter().map(|f| f.to_proto()).collect();
            let r = check_stream(&schema, &protos, &fams);
            println!("replay: size sweep with a help text of {} bytes: {:?}", k, r.as_ref().map(|b| b.len()).map_err(|e| e.0.clone()));
            if r.is_err() {
                println!("VIOLATION property=C13 replay={}", p);
                std::process::exit(1);
            }
            std::process::exit(0);
        }
        if let Some(fs) = doc["families"].as_array() {
            let fams: Vec<RFamily> = fs.iter().map(RFamily::from_json).collect();
            let protos: Vec<MetricFamily> = fams.iter().map(|f| f.to_proto()).collect();
            let r = check_stream(&schema, &protos, &fams);
            println!("replay: {:?}", r.as_ref().map(|b| b.len()));
            if r.is_err() {
                println!("VIOLATION property=C13 replay={}", p);
                std::process::exit(1);
            }
            std::process::exit(0);
        }
    }
    let types = [RType::Counter, RType::Gauge, RType::Histogram, RType::Summary, RType::Untyped];
    rep.rule = "the C04 family generator over all five metric types (every float class bit-exact incl. NaN, every string of the pool as help and label value, 0-2 (thorough 3) labels, 12 bucket/quantile shapes, every timestamp), all ordered pairs/triples of a 6-family basis as streams, a size sweep (one family grown byte by byte so that its record length takes every value up to 16500, thorough also around 2^21, between two small families), 20 streams placing a very large family (2 KiB token, 64+ KiB family, 400-bucket histogram) at every position among small ones, gathered output of the registry enumeration, refused families (empty / absent name, no samples) at every stream position, and call histories (failing writer at every byte offset then encode; encode, mutate through generated setters and public fields, clone, re-encode). The byte stream must split into exactly one varint-length-delimited MetricFamily per family with nothing else, and decode (wire decoder driven by proto_model.proto; unknown fields, wrong wire types, repeated singular fields, bad UTF-8 are errors) to exactly the encoded families. distinct = distinct encoded byte streams".into();
    rep.bounds = json!({"strings": STRS.len(), "floats": floats().len(), "types": 5});

    let mut run = |rep: &mut Report, fams: &[RFamily], group: &str| {
        rep.evaluations += 1;
        rep.transitions += 3;
        let protos: Vec<MetricFamily> = fams.iter().map(|f| f.to_proto()).collect();
        match watchdog::case(|| format!("protobuf round trip of {:?}", fams.iter().map(|f| f.key(true)).collect::<Vec<_>>()), || catch(|| check_stream(&schema, &protos, fams))) {
            Ok(Ok(bytes)) => {
                rep.outcome(format!("{:02x?}", bytes));
                if rep.evaluations % 3001 == 1 {
                    rep.sample(json!({"group": group, "families": fams.iter().map(|f| f.to_json()).collect::<Vec<_>>(), "bytes": bytes.len()}));
                }
            }
            Ok(Err((class, detail))) => rep.violation(format!("{}:{}:{:?}", class, group, fams[0].typ), detail.clone(), json!({"engine":"enum","group": group, "families": fams.iter().map(|f| f.to_json()).collect::<Vec<_>>(), "detail": detail})),
            Err(p) => rep.violation(format!("panic:{}", group), format!("encoder panicked: {}", p), json!({"engine":"enum","group": group, "families": fams.iter().map(|f| f.to_json()).collect::<Vec<_>>(), "detail": p})),
        }
    };
    for f in gen_families(if thorough { 1 } else { 0 }, &types) {
        run(&mut rep, std::slice::from_ref(&f), "generated");
    }
    // streams mixing small families with very large ones
    for st in big_streams() {
        run(&mut rep, &st, "big-stream");
    }
    // size sweep: one family grown byte by byte (help text of k bytes) between two small families, so that its encoded
    // length takes every value across the one/two/three-byte (thorough: four-byte) boundaries of the length prefix
    {
        let small_a = RFamily { name: "a_first".into(), ..basis_families()[0].clone() };
        let small_z = RFamily { name: "z_last".into(), ..basis_families()[0].clone() };
        let mut lengths = std::collections::BTreeSet::new();
        let mut ranges: Vec<std::ops::RangeInclusive<usize>> = vec![0..=16500];
        if thorough {
            ranges.push(2097000..=2097300);
        }
        for r in ranges {
            for k2 in r.flat_map(|k| [(k, "m_sweep"), (k, "m_sweep_")]) {
                // (the name one byte longer fills the lengths skipped when the help's own length prefix grows)
                let (k, name) = k2;
                let mut f = basis_families()[0].clone();
                f.name = name.into();
                f.help = "h".repeat(k);
                let fams = [small_a.clone(), f, small_z.clone()];
                let protos: Vec<MetricFamily> = fams.iter().map(|f| f.to_proto()).collect();
                rep.evaluations += 1;
                rep.transitions += 3;
                match watchdog::case(|| format!("size sweep, help of {} bytes", k), || catch(|| check_stream(&schema, &protos, &fams))) {
                    Ok(Ok(bytes)) => {
                        // length prefix of the middle record (first record: one-byte prefix for a small family)
                        let first = bytes[0] as usize;
                        let mut i = 1 + first;
                        let (mut len, mut shift) = (0usize, 0);
                        while i < bytes.len() {
                            len |= ((bytes[i] & 0x7f) as usize) << shift;
                            shift += 7;
                            i += 1;
                            if bytes[i - 1] & 0x80 == 0 {
                                break;
                            }
                        }
                        lengths.insert(len);
                        rep.outcome(format!("sweep:prefix-bytes:{}", shift / 7));
                    }
                    Ok(Err((class, detail))) => {
                        let short: Vec<RFamily> = fams.iter().map(|f| RFamily { help: if f.help.len() > 64 { format!("<{} bytes>", f.help.len()) } else { f.help.clone() }, ..f.clone() }).collect();
                        rep.violation(format!("{}:size-sweep", class), format!("help text of {} bytes: {}", k, detail.chars().take(300).collect::<String>()), json!({"engine":"enum","group": "size-sweep", "help_bytes": k, "name": name, "shape": short.iter().map(|f| f.to_json()).collect::<Vec<_>>(), "detail": detail.chars().take(300).collect::<String>()}));
                    }
                    Err(p) => rep.violation("panic:size-sweep".to_string(), format!("encoder panicked: {}", p), json!({"engine":"enum","group":"size-sweep","help_bytes": k, "detail": p})),
                }
            }
        }
        // every record length between the smallest and 16500 must have occurred
        let lo = *lengths.iter().next().unwrap_or(&0);
        let missing: Vec<usize> = (lo..=16500).filter(|l| !lengths.contains(l)).collect();
        rep.extra.insert("size_sweep".into(), json!({"record_lengths_covered": lengths.len(), "from": lo, "contiguous_to": 16500, "missing": missing.len()}));
        if !missing.is_empty() && rep.violations.is_empty() {
            eprintln!("MACHINERY: size sweep does not cover record lengths {:?}...", &missing[..missing.len().min(5)]);
            std::process::exit(2);
        }
    }
    let basis = basis_families();
    for a in &basis {
        for b in &basis {
            run(&mut rep, &[a.clone(), b.clone()], "stream-pair");
            for c in &basis {
                if thorough || a.name <= c.name {
                    run(&mut rep, &[a.clone(), b.clone(), c.clone()], "stream-triple");
                }
            }
        }
    }
    // gathered output
    let max = if thorough { 3 } else { 2 };
    for members in combi::subsets(9, 1, max) {
        for cfg in gatherenum::configs() {
            let mut gathers = 0;
            let mut results: Vec<Vec<MetricFamily>> = vec![];
            if let Err(e) = gatherenum::enumerate_orders(&members, &cfg, false, &mut gathers, |r| results.push(r.result.clone())) {
                eprintln!("MACHINERY: {}", e);
                std::process::exit(2);
            }
            for protos in results {
                let fams: Vec<RFamily> = protos.iter().map(RFamily::from_proto).collect();
                rep.evaluations += 1;
                match catch(|| check_stream(&schema, &protos, &fams)) {
                    Ok(Ok(b)) => rep.outcome(format!("{:02x?}", b)),
                    Ok(Err((class, detail))) => rep.violation(format!("{}:gathered", class), detail.clone(), json!({"engine":"enum","group":"gathered","members": members, "families": fams.iter().map(|f| f.to_json()).collect::<Vec<_>>(), "detail": detail})),
                    Err(p) => rep.violation("panic:gathered", p.clone(), json!({"detail": p})),
                }
            }
        }
    }
    // refused families
    let enc = ProtobufEncoder::new();
    let stream: Vec<MetricFamily> = basis.iter().map(|f| f.to_proto()).collect();
    let mut fresh = Vec::new();
    let _ = enc.encode(&stream, &mut fresh);
    let mut absent_name = basis[0].to_proto();
    absent_name.name = None;
    let bad: Vec<(&str, MetricFamily)> = vec![
        ("empty-name", RFamily { name: "".into(), ..basis[0].clone() }.to_proto()),
        ("absent-name", absent_name),
        ("no-samples", RFamily { metrics: vec![], ..basis[1].clone() }.to_proto()),
    ];
    for (what, fam) in &bad {
        for pos in 0..=2 {
            let mut st = stream[..pos].to_vec();
            st.push(fam.clone());
            st.extend_from_slice(&stream[pos..]);
            rep.evaluations += 1;
            let mut out = Vec::new();
            let r = catch(|| enc.encode(&st, &mut out).is_err());
            match r {
                Ok(true) => rep.outcome(format!("refused:{}:{}", what, pos)),
                Ok(false) => rep.violation(format!("invalid-family-accepted:{}", what), format!("a family with {} at stream position {} was encoded without error", what, pos), json!({"engine":"enum","group":"refused","what": what, "position": pos, "detail": "encode returned Ok"})),
                Err(p) => rep.violation("panic:refused", p.clone(), json!({"detail": p})),
            }
            // history: a later encode on this thread is unaffected
            let mut again = Vec::new();
            let _ = enc.encode(&stream, &mut again);
            if again != fresh {
                rep.violation("history:after-refused-family", format!("after a refused family ({} at {}), encoding a valid stream gave different bytes ({} vs {})", what, pos, again.len(), fresh.len()), json!({"engine":"enum","group":"history","detail": "stale bytes after a failed encode"}));
            }
        }
    }
    for k in 0..fresh.len() + 1 {
        rep.evaluations += 1;
        let _ = ProtobufEncoder::new().encode(&stream, &mut FailAfter(k));
        let mut again = Vec::new();
        let r = enc.encode(&stream, &mut again);
        if r.is_err() || again != fresh {
            rep.violation("history:after-failing-writer", format!("after a writer failed at byte {}, encoding the same stream again gave {} bytes instead of {}", k, again.len(), fresh.len()), json!({"engine":"enum","group":"history","writer_fails_after": k, "detail": "stale or different bytes after a failed encode"}));
            break;
        }
        rep.outcome(format!("history:failing-writer:{}", k.min(3)));
    }
    // encode, mutate through setters / public fields / clone, re-encode
    for (i, f) in basis.iter().enumerate() {
        let mut p = f.to_proto();
        let mut g = f.clone();
        let _ = enc.encode(std::slice::from_ref(&p), &mut Vec::new());
        let muts: Vec<(&str, Box<dyn Fn(&mut MetricFamily, &mut RFamily)>)> = vec![
            ("set_name", Box::new(move |p, g| { p.set_name(format!("a_much_longer_name_{}", i)); g.name = format!("a_much_longer_name_{}", i); })),
            ("set_help", Box::new(|p, g| { p.set_help("h\u{e9}lp \n longer".into()); g.help = "h\u{e9}lp \n longer".into(); })),
            ("label-field", Box::new(|p, g| { if let Some(l) = p.metric[0].label.first_mut() { l.value = Some("v".repeat(200)); g.metrics[0].labels[0].1 = "v".repeat(200); } })),
            ("pop-metric", Box::new(|p, g| { if p.metric.len() > 1 { p.metric.pop(); g.metrics.pop(); } })),
            ("push-metric", Box::new(|p, g| { let m = p.metric[0].clone(); p.mut_metric().push(m); let m2 = g.metrics[0].clone(); g.metrics.push(m2); })),
            ("clone", Box::new(|p, _g| { *p = p.clone(); })),
        ];
        for (what, m) in muts {
            m(&mut p, &mut g);
            rep.evaluations += 1;
            match catch(|| check_stream(&schema, std::slice::from_ref(&p), std::slice::from_ref(&g))) {
                Ok(Ok(b)) => rep.outcome(format!("{:02x?}", b)),
                Ok(Err((c, d))) => rep.violation(format!("history:reencode-after-{}:{}", what, c), d.clone(), json!({"engine":"enum","group":"history","mutation": what, "detail": d})),
                Err(pn) => rep.violation("panic:history", pn.clone(), json!({"detail": pn})),
            }
        }
    }
    rep.states = rep.evaluations;
    rep.traces = rep.evaluations;
    rep.extra.insert("schema_messages".into(), json!(schema.messages.keys().collect::<Vec<_>>()));
    rep.assumptions = vec!["field tables come from /repo/proto/proto_model.proto at run time; the decoder itself (harness/src/pbwire.rs) is trusted".into()];
    std::process::exit(rep.finish());
}
