//! C01 — counter increments are never lost and never go backwards.
//! Engine E1: all interleavings (sleep-set reduced, unbounded) of 2–3 threads
//! running every program of <=2 operations over one shared counter cell of
//! every flavour; linearizability against a sequential counter.

use serde_json::json;
use verif_harness::celldrv::*;
use verif_harness::vsched::*;
use verif_harness::*;

fn alphabet() -> Vec<CellOp> {
    vec![CellOp::Add(1.0), CellOp::Get, CellOp::Reset, CellOp::LocalFlush(1.0), CellOp::Collect, CellOp::LocalCloneFlush(1.0), CellOp::Inc, CellOp::LocalBatch(1.0, 1.0)]
}

/// Give every updating call site a distinct power of two.
fn instantiate(progs: &[Vec<CellOp>]) -> Vec<Vec<CellOp>> {
    let mut k = 0;
    progs
        .iter()
        .map(|p| {
            p.iter()
                .map(|op| {
                    let mut pw = || {
                        k += 1;
                        (1u64 << (k - 1)) as f64
                    };
                    match op {
                        CellOp::Add(_) => CellOp::Add(pw()),
                        CellOp::LocalFlush(_) => CellOp::LocalFlush(pw()),
                        CellOp::LocalCloneFlush(_) => CellOp::LocalCloneFlush(pw()),
                        CellOp::LocalBatch(..) => {
                            let a = pw();
                            CellOp::LocalBatch(a, pw())
                        }
                        o => *o,
                    }
                })
                .collect()
        })
        .collect()
}

fn programs(max_len: usize, alpha: &[CellOp]) -> Vec<Vec<CellOp>> {
    combi::sequences_upto(alpha.len(), max_len).filter(|s| !s.is_empty()).map(|s| s.iter().map(|&i| alpha[i]).collect()).collect()
}

fn main() {
    let args = parse_args();
    quiet_panics();
    let mut rep = Report::new("C01", &args);
    let thorough = args.tier == Tier::Thorough;
    let flavours = [Flavour::Counter, Flavour::IntCounter, Flavour::CounterVecChild, Flavour::IntCounterVecChild];
    if let Some(p) = &args.replay {
        let doc = read_replay(p);
        std::process::exit(replay_cli("C01", p, &doc, verif_harness::celldrv::CellDriver::from_spec));
    }
    let alpha = alphabet();
    let base: Vec<CellOp> = if thorough { alpha.clone() } else { alpha[..6].to_vec() };
    let progs2 = programs(2, &base);
    let progs1 = programs(1, &alpha);
    let mut drivers = vec![];
    let mut three_inside = vec![];
    let preludes: Vec<Vec<CellOp>> = vec![vec![], vec![CellOp::Add(4096.0)], vec![CellOp::Add(4096.0), CellOp::Reset]];
    for &f in &flavours {
        // all unordered pairs of programs of length <= 2
        for i in 0..progs2.len() {
            for j in i..progs2.len() {
                let ps = [progs2[i].clone(), progs2[j].clone()];
                // pairs without any update or without any read/reset are still explored (final value check)
                let pre = preludes[(i + j) % preludes.len()].clone();
                drivers.push(CellDriver { cloned: drivers.len() % 2 == 1, flavour: f, prelude: pre, programs: instantiate(&ps) });
            }
        }
        // all unordered triples of 1-op programs
        for i in 0..progs1.len() {
            for j in i..progs1.len() {
                for k in j..progs1.len() {
                    let ps = [progs1[i].clone(), progs1[j].clone(), progs1[k].clone()];
                    drivers.push(CellDriver { cloned: drivers.len() % 2 == 1, flavour: f, prelude: preludes[(i + j + k) % preludes.len()].clone(), programs: instantiate(&ps) });
                }
            }
        }
        // vector flavours: two updaters racing with the removal of an unrelated child (ABA on the children map)
        if matches!(f, Flavour::CounterVecChild | Flavour::IntCounterVecChild | Flavour::GaugeVecChild | Flavour::IntGaugeVecChild) {
            for third in [CellOp::RemoveOther, CellOp::Get] {
                drivers.push(CellDriver { cloned: drivers.len() % 2 == 1, flavour: f, prelude: vec![], programs: instantiate(&[vec![CellOp::Add(1.0)], vec![CellOp::Add(1.0)], vec![CellOp::RemoveOther, third]]) });
            }
        }
        // contention: one update against a run of five by another thread that then reads (an update that gives up or
        // changes strategy after losing several races), and three updaters inside the cell at once
        {
            let a = CellOp::Add(1.0);
            drivers.push(CellDriver { cloned: drivers.len() % 2 == 1, flavour: f, prelude: vec![], programs: instantiate(&[vec![a], vec![a, a, a, a, a, CellOp::Get]]) });
            if thorough || f == Flavour::Counter {
                three_inside.push(CellDriver { cloned: f != Flavour::Counter, flavour: f, prelude: vec![CellOp::Add(4096.0)], programs: instantiate(&[vec![a, CellOp::Get], vec![a], vec![a, a]]) });
            }
        }
        if thorough {
            // triples: one thread with 2 operations, two threads with 1
            // (restricted to the first four letters of the alphabet to keep the tier within minutes)
            for a in &programs(2, &alpha[..4]) {
                if a.len() < 2 {
                    continue;
                }
                for j in 0..4 {
                    for k in j..4 {
                        let ps = [a.clone(), progs1[j].clone(), progs1[k].clone()];
                        drivers.push(CellDriver { cloned: drivers.len() % 2 == 1, flavour: f, prelude: vec![], programs: instantiate(&ps) });
                    }
                }
            }
        }
    }
    let ndrivers = drivers.len() + three_inside.len();
    rep.rule = format!(
        "stateless exploration (vsched, Mode U = unbounded with sleep sets; a driver exceeding the execution cap is re-run preemption-bounded) of all thread interleavings at atomic/lock operations of: for each of 4 counter flavours (Counter, IntCounter, children of CounterVec/IntCounterVec fetched by every call), all unordered pairs of programs of length 1..2 over {:?} and all unordered triples of 1-operation programs over {:?}{}; start states fresh / pre-incremented / pre-incremented-then-reset; every update carries a distinct power of two; half of the drivers share one handle by reference, the other half give every thread its own clone; oracle = linearizability (Wing-Gong) of the recorded call/return history incl. quiescent get() and collect() against a sequential counter. distinct = distinct (flavour, values read, real-time relation) outcomes",
        base, alpha, if thorough { "; plus triples with one 2-operation thread" } else { "" }
    );
    rep.bounds = json!({"threads": "2-3", "ops_per_thread": 2, "mode": "U (sleep sets, unbounded)", "drivers": ndrivers});
    let cap = if thorough { 400_000 } else { 200_000 };
    // deviation budget (at most one spurious compare_exchange_weak failure per execution): everywhere in the
    // thorough tier, for the drivers with at most 3 calls in the quick tier
    let cl = |d: &CellDriver| CellDriver { cloned: d.cloned, flavour: d.flavour, prelude: d.prelude.clone(), programs: d.programs.clone() };
    let (small, large): (Vec<CellDriver>, Vec<CellDriver>) = drivers.into_iter().partition(|d| d.programs.iter().map(|p| p.len()).sum::<usize>() <= 3 && (thorough || d.programs.len() == 2));
    SPURIOUS_BUDGET.store(1, std::sync::atomic::Ordering::Relaxed);
    // ... or a storm of them (the weak CAS keeps failing while the thread repeats its retry loop, up to 64 times)
    verif_harness::vsched::STORM.store(true, std::sync::atomic::Ordering::Relaxed);
    let mut results = explore_many(small, Mode::U, cap, 3, 16, cl);
    SPURIOUS_BUDGET.store(0, std::sync::atomic::Ordering::Relaxed);
    verif_harness::vsched::STORM.store(false, std::sync::atomic::Ordering::Relaxed);
    results.extend(explore_many(large, Mode::U, cap, 3, 16, cl));
    // a long run by one thread alone (34 updates), then two other threads join: every schedule with <= 2 preemptions
    {
        let a = CellOp::Add(1.0);
        let fl: Vec<Flavour> = if thorough { flavours.to_vec() } else { vec![Flavour::Counter] };
        for f in fl {
            let d = CellDriver { cloned: true, flavour: f, prelude: vec![], programs: instantiate(&[vec![a; 34], vec![a], vec![a, CellOp::Get]]) };
            let name = verif_harness::vsched::Driver::name(&d);
            let r = verif_harness::vsched::explore(d, Mode::B(2), 3_000_000, 16);
            results.push((name, Mode::B(2), r));
        }
    }
    // the three-updaters-inside drivers are the largest single explorations: 16 workers on each in turn
    for d in three_inside {
        let name = verif_harness::vsched::Driver::name(&d);
        let r = verif_harness::vsched::explore(d, Mode::U, 2_000_000, 16);
        results.push((name, Mode::U, r));
    }
    let summary = fold_results(&mut rep, results);
    rep.extra.insert("modes".into(), summary);
    rep.assumptions = vec![
        "executions are sequentially consistent interleavings in program order (single-location coherence makes this exact for one atomic cell; the vector map is only touched under its lock)".into(),
        "negative increments (debug-asserted) and more than 3 threads are not covered".into(),
    ];
    std::process::exit(rep.finish());
}
