//! C15 — descriptor identity is structural.
//! E3: all descriptors over adversarial pools (<=2 constant labels, <=2 variable
//! labels), each built from constant-label maps in every realised iteration
//! order; id / dim_hash equality must coincide with structural-key equality
//! over ALL pairs (checked by grouping both ways).

use prometheus::core::Desc;
use prometheus::Opts;
use prometheus::core::Describer;
use serde_json::json;
use std::collections::{BTreeMap, BTreeSet, HashMap};
use verif_harness::*;

const NAMES: [&str; 5] = ["a", "ab", "a_b", "b", "a_"];
const CNAMES: [&str; 3] = ["a", "b", "ab"];
const VALUES: [&str; 9] = ["", "b", "x", "xy", "y", "\u{e9}", "_b", "a", "ab"];
const VNAMES: [&str; 3] = ["a", "b", "c"];
const HELPS: [&str; 3] = ["h", "hh", "ha"];

#[derive(Clone, Debug)]
struct Spec {
    name: &'static str,
    help: &'static str,
    consts: Vec<(&'static str, &'static str)>,
    vars: Vec<&'static str>,
}

impl Spec {
    fn id_key(&self) -> String {
        let mut c = self.consts.clone();
        c.sort();
        format!("{:?}|{:?}", self.name, c.iter().map(|(_, v)| *v).collect::<Vec<_>>())
    }
    fn dim_key(&self) -> String {
        let c: BTreeSet<&str> = self.consts.iter().map(|(k, _)| *k).collect();
        let v: BTreeSet<&str> = self.vars.iter().cloned().collect();
        format!("{:?}|{:?}|{:?}", self.help, c, v)
    }
    fn valid(&self) -> bool {
        let mut all: Vec<&str> = self.consts.iter().map(|(k, _)| *k).collect();
        all.extend(self.vars.iter());
        let n = all.len();
        all.sort();
        all.dedup();
        all.len() == n
    }
}

fn specs() -> Vec<Spec> {
    let mut const_sets: Vec<Vec<(&'static str, &'static str)>> = vec![vec![]];
    for n in CNAMES {
        for v in VALUES {
            const_sets.push(vec![(n, v)]);
        }
    }
    for i in 0..CNAMES.len() {
        for j in i + 1..CNAMES.len() {
            for v1 in VALUES {
                for v2 in VALUES {
                    const_sets.push(vec![(CNAMES[i], v1), (CNAMES[j], v2)]);
                }
            }
        }
    }
    let mut var_lists: Vec<Vec<&'static str>> = vec![vec![]];
    for a in VNAMES {
        var_lists.push(vec![a]);
        for b in VNAMES {
            if a != b {
                var_lists.push(vec![a, b]);
            }
        }
    }
    let mut out = vec![];
    for name in NAMES {
        for help in HELPS {
            for c in &const_sets {
                for v in &var_lists {
                    out.push(Spec { name, help, consts: c.clone(), vars: v.clone() });
                }
            }
        }
    }
    out
}

fn leak(s: String) -> &'static str {
    Box::leak(s.into_boxed_str())
}

/// Descriptors whose fields are one 150-byte text cut at every position between two neighbouring fields of the hashed
/// key (value|value, name|value, help|variable name, help|constant name): all structurally different.
fn long_specs() -> Vec<Spec> {
    let text: String = (0..150).map(|i| (b'a' + ((i * 7 + i / 26) % 26) as u8) as char).collect();
    let mut out = vec![];
    for i in 0..=text.len() {
        let (l, r) = (leak(text[..i].to_string()), leak(text[i..].to_string()));
        out.push(Spec { name: "m", help: "h", consts: vec![("a", l), ("b", r)], vars: vec![] });
        if i >= 1 {
            out.push(Spec { name: l, help: "h", consts: vec![("a", r)], vars: vec![] });
            out.push(Spec { name: l, help: "h", consts: vec![("a", ""), ("b", r)], vars: vec![] });
        }
        if i >= 1 && i < text.len() {
            out.push(Spec { name: "m", help: l, consts: vec![], vars: vec![r] });
            out.push(Spec { name: "m", help: l, consts: vec![(r, "v")], vars: vec![] });
            out.push(Spec { name: "m", help: "h", consts: vec![("a", l)], vars: vec![r] });
        }
    }
    out
}

fn main() {
    let args = parse_args();
    quiet_panics();
    let mut rep = Report::new("C15", &args);
    if let Some(p) = &args.replay {
        let doc = read_replay(p);
        println!("{}", doc["detail"]);
    }
    let mut all = specs();
    all.extend(long_specs());
    rep.rule = format!("all descriptors over names {:?} x help {:?} x constant-label sets (<=2 labels over names {:?}, values {:?}) x variable-label lists (<=2 over {:?}, both orders): each built through Desc::new from a constant-label HashMap in every realised iteration order and through Opts with every insertion order; id must be equal exactly for equal (fq_name, constant values in label-name order), dim_hash exactly for equal (help, constant-name set, variable-name set) — over all pairs, by grouping in both directions; plus descriptors whose neighbouring key fields are one 150-byte text cut at every position; rebuilds of one descriptor must agree, also when other descriptors are built in between (X, Y, X with 4 strides; X, HUGE, X with 600/5000/70000-byte fields; X on a fresh thread); const_label_pairs must come out name-sorted. distinct = distinct (id, dim_hash) pairs", NAMES, HELPS, CNAMES, VALUES, VNAMES);
    rep.bounds = json!({"descriptors": all.len(), "const_labels": 2, "variable_labels": 2});
    let mut ids_by_key: BTreeMap<String, BTreeMap<u64, String>> = BTreeMap::new();
    let mut keys_by_id: BTreeMap<u64, BTreeMap<String, String>> = BTreeMap::new();
    let mut dims_by_key: BTreeMap<String, BTreeMap<u64, String>> = BTreeMap::new();
    let mut keys_by_dim: BTreeMap<u64, BTreeMap<String, String>> = BTreeMap::new();
    for s in &all {
        let perms = combi::permutations(s.consts.len());
        let pairs: Vec<(String, String)> = s.consts.iter().map(|(k, v)| (k.to_string(), v.to_string())).collect();
        let mut builds: Vec<(String, Result<Desc, String>)> = vec![];
        for p in &perms {
            // Desc::new from a map with iteration order p
            let m: HashMap<String, String> = match combi::hashmap_with_order(&pairs, p, 1_000_000) {
                Some(m) => m,
                None => {
                    eprintln!("MACHINERY: cannot realise map order");
                    std::process::exit(2);
                }
            };
            builds.push((format!("Desc::new map-order {:?}", p), Desc::new(s.name.into(), s.help.into(), s.vars.iter().map(|x| x.to_string()).collect(), m).map_err(|e| e.to_string())));
            // Opts with insertion order p
            let mut o = Opts::new(s.name, s.help);
            for &i in p {
                o = o.const_label(s.consts[i].0, s.consts[i].1);
            }
            o = o.variable_labels(s.vars.iter().map(|x| x.to_string()).collect());
            builds.push((format!("Opts insertion-order {:?}", p), o.describe().map_err(|e| e.to_string())));
        }
        rep.evaluations += builds.len() as u64;
        rep.transitions += builds.len() as u64;
        let spec_s = format!("{:?}", s);
        if !s.valid() {
            if let Some((how, _)) = builds.iter().find(|(_, r)| r.is_ok()) {
                rep.violation("clashing-label-names-accepted", format!("{} accepted by {}", spec_s, how), json!({"engine":"enum","spec": spec_s, "detail": "label name used as constant and variable label"}));
            }
            continue;
        }
        let mut first: Option<(u64, u64)> = None;
        for (how, r) in &builds {
            let d = match r {
                Ok(d) => d,
                Err(e) => {
                    rep.violation("valid-descriptor-rejected", format!("{} rejected by {}: {}", spec_s, how, e), json!({"engine":"enum","spec": spec_s, "detail": e}));
                    continue;
                }
            };
            match first {
                None => first = Some((d.id, d.dim_hash)),
                Some(f) => {
                    if f != (d.id, d.dim_hash) {
                        rep.violation("identity-depends-on-supply-order", format!("{}: {} gives (id,dim)=({:x},{:x}) but another build gave ({:x},{:x})", spec_s, how, d.id, d.dim_hash, f.0, f.1), json!({"engine":"enum","spec": spec_s, "detail": format!("{} differs", how)}));
                    }
                }
            }
            let mut exp_pairs: Vec<(&str, &str)> = s.consts.clone();
            exp_pairs.sort();
            let got_pairs: Vec<(&str, &str)> = d.const_label_pairs.iter().map(|lp| (lp.name(), lp.value())).collect();
            if got_pairs != exp_pairs || d.variable_labels != s.vars || d.fq_name != s.name || d.help != s.help {
                rep.violation("descriptor-fields", format!("{}: {} built fields name={} help={} consts={:?} vars={:?}", spec_s, how, d.fq_name, d.help, got_pairs, d.variable_labels), json!({"engine":"enum","spec": spec_s, "detail": "fields differ from the inputs"}));
            }
        }
        if let Some((id, dim)) = first {
            ids_by_key.entry(s.id_key()).or_default().entry(id).or_insert_with(|| spec_s.clone());
            keys_by_id.entry(id).or_default().entry(s.id_key()).or_insert_with(|| spec_s.clone());
            dims_by_key.entry(s.dim_key()).or_default().entry(dim).or_insert_with(|| spec_s.clone());
            keys_by_dim.entry(dim).or_default().entry(s.dim_key()).or_insert_with(|| spec_s.clone());
            rep.outcome(format!("{:x}|{:x}", id, dim));
        }
    }
    // history dependence: rebuilding descriptors in an interleaved order (X, Y, X, Z, Y, ...) on this
    // thread must give the same identities as the first build
    let valid: Vec<&Spec> = all.iter().filter(|s| s.valid()).collect();
    let build = |s: &Spec| {
        let m: HashMap<String, String> = s.consts.iter().map(|(k, v)| (k.to_string(), v.to_string())).collect();
        Desc::new(s.name.into(), s.help.into(), s.vars.iter().map(|x| x.to_string()).collect(), m).ok().map(|d| (d.id, d.dim_hash))
    };
    let stride = [1usize, 2, 7, 97];
    for (i, x) in valid.iter().enumerate() {
        let first = build(x);
        for st in stride {
            let y = valid[(i + st) % valid.len()];
            let _ = build(y);
            let again = build(x);
            rep.evaluations += 2;
            rep.transitions += 2;
            if again != first {
                rep.violation("identity-depends-on-earlier-calls", format!("Desc::new({:?}), Desc::new({:?}), Desc::new(first again) gives {:x?} then {:x?}", x, y, first, again), json!({"engine":"enum","a": format!("{:?}", x), "b": format!("{:?}", y), "detail": "X, Y, X on one thread: the second X differs from the first"}));
                break;
            }
        }
    }
    // a very large key in between (larger than any plausible scratch buffer), and a build on another thread
    {
        let x = valid[valid.len() / 3];
        let first = build(x);
        for n in [600usize, 5000, 70000] {
            let huge = Spec { name: "huge", help: leak("h".repeat(n)), consts: vec![("a", leak("v".repeat(n)))], vars: vec![] };
            let h1 = build(&huge);
            let again = build(x);
            let h2 = build(&huge);
            let xs: Spec = (*x).clone();
            let other = std::thread::spawn(move || {
                let m: HashMap<String, String> = xs.consts.iter().map(|(k, v)| (k.to_string(), v.to_string())).collect();
                Desc::new(xs.name.into(), xs.help.into(), xs.vars.iter().map(|x| x.to_string()).collect(), m).ok().map(|d| (d.id, d.dim_hash))
            })
            .join()
            .unwrap_or(None);
            rep.evaluations += 4;
            rep.transitions += 4;
            if again != first || h1 != h2 || other != first || first.is_none() || h1.is_none() {
                rep.violation(
                    "identity-depends-on-earlier-calls",
                    format!("Desc::new({:?}) = {:x?}; after a descriptor with {}-byte help and value: {:x?}; on a fresh thread: {:x?}; the large one twice: {:x?} / {:x?}", x, first, n, again, other, h1, h2),
                    json!({"engine":"enum","a": format!("{:?}", x), "b": format!("huge({})", n), "detail": "X, HUGE, X (and X on a fresh thread) must agree"}),
                );
                break;
            }
        }
    }
    let mut pairs_checked = 0u64;
    for (what, fwd, bwd) in [("id", &ids_by_key, &keys_by_id), ("dim_hash", &dims_by_key, &keys_by_dim)] {
        for (k, hs) in fwd.iter() {
            pairs_checked += 1;
            if hs.len() > 1 {
                let ex: Vec<&String> = hs.values().collect();
                rep.violation(format!("{}-differs-for-equal-structure", what), format!("structural key {} has {} different {} values, e.g. {} vs {}", k, hs.len(), what, ex[0], ex[1]), json!({"engine":"enum","a": ex[0], "b": ex[1], "detail": format!("equal structural key {} but different {}", k, what)}));
            }
        }
        for (h, ks) in bwd.iter() {
            if ks.len() > 1 {
                let ex: Vec<(&String, &String)> = ks.iter().collect();
                rep.violation(format!("{}-equal-for-different-structure", what), format!("{} {:x} is shared by structurally different descriptors: {} [{}] and {} [{}]", what, h, ex[0].1, ex[0].0, ex[1].1, ex[1].0), json!({"engine":"enum","a": ex[0].1, "b": ex[1].1, "detail": format!("different structural keys {} / {} but equal {}", ex[0].0, ex[1].0, what)}));
            }
        }
    }
    rep.sample(json!({"descriptor": format!("{:?}", all[all.len() / 2]), "id_key": all[all.len() / 2].id_key(), "dim_key": all[all.len() / 2].dim_key()}));
    rep.extra.insert("structural_id_classes".into(), json!(ids_by_key.len()));
    rep.extra.insert("structural_dim_classes".into(), json!(dims_by_key.len()));
    rep.extra.insert("descriptors".into(), json!(all.len()));
    let n = all.len() as u64;
    rep.extra.insert("pairs_covered_by_grouping".into(), json!(n * (n - 1) / 2));
    let _ = pairs_checked;
    rep.states = all.len() as u64;
    rep.traces = rep.evaluations;
    rep.assumptions = vec!["a difference between structurally different keys that collide in the 64-bit hash would be reported (the statement exempts genuine collisions; none exists in this pool)".into()];
    std::process::exit(rep.finish());
}
