//! C12 — local (unsync) metrics hand over exactly what they accumulated.
//! Engine E2: BFS over all histories (depth-bounded) of local updates, flush,
//! reset/clear, clone, remove and drop over several local handles of one shared
//! counter / histogram / counter vector / histogram vector; every transition is
//! re-executed on fresh real objects against a pending/flushed ledger.

use prometheus::core::Collector;
use prometheus::local::{LocalCounter, LocalCounterVec, LocalHistogram, LocalHistogramVec, LocalIntCounter, LocalIntCounterVec};
use prometheus::{Counter, CounterVec, Histogram, HistogramOpts, HistogramVec, IntCounter, IntCounterVec, Opts};
use serde_json::json;
use std::collections::BTreeMap;
use verif_harness::statespace::*;
use verif_harness::*;

const SLOTS: usize = 3;
const KEYS: [&str; 2] = ["a", "b"];

fn dis(sig: &str, what: String, transcript: &[String]) -> Disagreement {
    Disagreement { signature: sig.to_string(), what, transcript: transcript.to_vec() }
}

// ------------------------------------------------------------ counter model

#[derive(Clone, Debug, PartialEq, Eq, Hash, serde::Serialize, serde::Deserialize)]
enum COp {
    Inc(usize),
    IncBy(usize),
    Flush(usize),
    Reset(usize),
    Clone(usize),
    Drop(usize),
    SharedInc,
    SharedReset,
}

enum Shared {
    F(Counter),
    I(IntCounter),
}
enum Local {
    F(LocalCounter),
    I(LocalIntCounter),
}

impl Shared {
    fn get(&self) -> f64 {
        match self {
            Shared::F(c) => c.get(),
            Shared::I(c) => c.get() as f64,
        }
    }
    fn local(&self) -> Local {
        match self {
            Shared::F(c) => Local::F(c.local()),
            Shared::I(c) => Local::I(c.local()),
        }
    }
}
impl Local {
    fn get(&self) -> f64 {
        match self {
            Local::F(c) => c.get(),
            Local::I(c) => c.get() as f64,
        }
    }
}

struct CounterSut {
    int: bool,
    merge: bool,
    /// all amounts multiplied by this power of two (1 = the plain run; 2^-60 = amounts far below f64::EPSILON)
    scale: f64,
}

impl Sut for CounterSut {
    type Op = COp;
    fn merge_states(&self) -> bool {
        self.merge
    }
    fn ops(&self, hist: &[COp]) -> Vec<COp> {
        // slots alive after hist (cheap reference bookkeeping only)
        let mut alive = vec![true, true, false];
        for o in hist {
            match o {
                COp::Clone(_) => {
                    if let Some(p) = alive.iter().position(|a| !a) {
                        alive[p] = true;
                    }
                }
                COp::Drop(i) => alive[*i] = false,
                _ => {}
            }
        }
        let mut v = vec![];
        for i in 0..SLOTS {
            if alive[i] {
                v.push(COp::Inc(i));
            }
        }
        for i in 0..SLOTS {
            if alive[i] {
                v.push(COp::Flush(i));
            }
        }
        for i in 0..SLOTS {
            if alive[i] {
                v.extend([COp::IncBy(i), COp::Reset(i)]);
                if alive.iter().any(|a| !a) {
                    v.push(COp::Clone(i));
                }
                v.push(COp::Drop(i));
            }
        }
        v.extend([COp::SharedInc, COp::SharedReset]);
        v
    }

    fn replay(&self, hist: &[COp]) -> Result<String, Disagreement> {
        let shared = if self.int { Shared::I(IntCounter::new("c", "h").unwrap()) } else { Shared::F(Counter::new("c", "h").unwrap()) };
        let mut locals: Vec<Option<Local>> = vec![Some(shared.local()), Some(shared.local()), None];
        let mut m_shared = 0.0f64;
        let mut m_pending: Vec<Option<f64>> = vec![Some(0.0), Some(0.0), None];
        let mut tr = vec![];
        for (step, op) in hist.iter().enumerate() {
            match op {
                COp::Inc(i) => {
                    match locals[*i].as_ref().unwrap() {
                        Local::F(l) if self.scale != 1.0 => l.inc_by(self.scale),
                        Local::F(l) => l.inc(),
                        Local::I(l) => l.inc(),
                    }
                    *m_pending[*i].as_mut().unwrap() += 1.0 * self.scale;
                }
                COp::IncBy(i) => {
                    match locals[*i].as_ref().unwrap() {
                        Local::F(l) => l.inc_by(2.5 * self.scale),
                        Local::I(l) => l.inc_by(2),
                    }
                    *m_pending[*i].as_mut().unwrap() += if self.int { 2.0 } else { 2.5 * self.scale };
                }
                COp::Flush(i) => {
                    match locals[*i].as_ref().unwrap() {
                        Local::F(l) => l.flush(),
                        Local::I(l) => l.flush(),
                    }
                    m_shared += m_pending[*i].unwrap();
                    m_pending[*i] = Some(0.0);
                }
                COp::Reset(i) => {
                    match locals[*i].as_ref().unwrap() {
                        Local::F(l) => l.reset(),
                        Local::I(l) => l.reset(),
                    }
                    m_pending[*i] = Some(0.0);
                }
                COp::Clone(i) => {
                    let p = locals.iter().position(|l| l.is_none()).unwrap();
                    let c = match locals[*i].as_ref().unwrap() {
                        Local::F(l) => Local::F(l.clone()),
                        Local::I(l) => Local::I(l.clone()),
                    };
                    locals[p] = Some(c);
                    m_pending[p] = Some(0.0);
                }
                COp::Drop(i) => {
                    locals[*i] = None; // a local counter discards on drop
                    m_pending[*i] = None;
                }
                COp::SharedInc => {
                    match &shared {
                        Shared::F(c) => c.inc_by(16.0 * self.scale),
                        Shared::I(c) => c.inc_by(16),
                    }
                    m_shared += 16.0 * self.scale;
                }
                COp::SharedReset => {
                    match &shared {
                        Shared::F(c) => c.reset(),
                        Shared::I(c) => c.reset(),
                    }
                    m_shared = 0.0;
                }
            }
            let got_p: Vec<Option<f64>> = locals.iter().map(|l| l.as_ref().map(|l| l.get())).collect();
            tr.push(format!("{:?}: shared impl {} / model {}; pending impl {:?} / model {:?}", op, shared.get(), m_shared, got_p, m_pending));
            if shared.get() != m_shared {
                return Err(dis(&format!("counter:shared-after-{}", opname(op)), format!("step {} {:?}: shared counter {} but ledger says {}", step, op, shared.get(), m_shared), &tr));
            }
            if got_p != m_pending {
                return Err(dis(&format!("counter:pending-after-{}", opname(op)), format!("step {} {:?}: local values {:?} but ledger says {:?}", step, op, got_p, m_pending), &tr));
            }
        }
        Ok(format!("{}|{:?}", m_shared, m_pending))
    }
}

/// Drop `v` from a destructor that runs while the thread is unwinding from a panic.
fn drop_while_unwinding<T>(v: T) {
    struct Guard<T>(Option<T>);
    impl<T> Drop for Guard<T> {
        fn drop(&mut self) {
            drop(self.0.take());
        }
    }
    let g = Guard(Some(v));
    let _ = std::panic::catch_unwind(std::panic::AssertUnwindSafe(move || {
        let _g = g;
        std::panic::resume_unwind(Box::new("deliberate unwinding"));
    }));
}

fn opname<T: std::fmt::Debug>(o: &T) -> String {
    let s = format!("{:?}", o);
    s.split('(').next().unwrap().to_string()
}

// ---------------------------------------------------------- histogram model

#[derive(Clone, Debug, PartialEq, Eq, Hash, serde::Serialize, serde::Deserialize)]
enum HOp {
    ObserveLo(usize),
    ObserveHi(usize),
    ObserveNeg(usize),
    Flush(usize),
    Clear(usize),
    Clone(usize),
    Drop(usize),
    /// drop the local histogram while the thread is unwinding from a panic
    DropUnwinding(usize),
    SharedObserve,
}

#[derive(Clone, Debug, PartialEq, Default)]
struct HL {
    count: u64,
    sum: f64,
    lo: u64, // observations <= 1.0
}

fn snap(h: &Histogram) -> HL {
    let mf = h.collect();
    let hh = mf[0].get_metric()[0].get_histogram().clone();
    HL { count: hh.get_sample_count(), sum: hh.get_sample_sum(), lo: hh.get_bucket()[0].cumulative_count() }
}

struct HistSut {
    merge: bool,
}

impl Sut for HistSut {
    type Op = HOp;
    fn merge_states(&self) -> bool {
        self.merge
    }
    fn ops(&self, hist: &[HOp]) -> Vec<HOp> {
        let mut alive = vec![true, true, false];
        for o in hist {
            match o {
                HOp::Clone(_) => {
                    if let Some(p) = alive.iter().position(|a| !a) {
                        alive[p] = true;
                    }
                }
                HOp::Drop(i) | HOp::DropUnwinding(i) => alive[*i] = false,
                _ => {}
            }
        }
        let mut v = vec![];
        for i in 0..SLOTS {
            if alive[i] {
                v.extend([HOp::ObserveLo(i), HOp::Flush(i)]);
            }
        }
        for i in 0..SLOTS {
            if alive[i] {
                v.extend([HOp::ObserveHi(i), HOp::Clear(i)]);
                if i == 0 {
                    v.push(HOp::ObserveNeg(i));
                    v.push(HOp::DropUnwinding(i));
                }
                if alive.iter().any(|a| !a) {
                    v.push(HOp::Clone(i));
                }
                v.push(HOp::Drop(i));
            }
        }
        v.push(HOp::SharedObserve);
        v
    }

    fn replay(&self, hist: &[HOp]) -> Result<String, Disagreement> {
        let shared = Histogram::with_opts(HistogramOpts::new("h", "h").buckets(vec![1.0])).unwrap();
        let mut locals: Vec<Option<LocalHistogram>> = vec![Some(shared.local()), Some(shared.local()), None];
        let mut m_shared = HL::default();
        let mut m_pending: Vec<Option<HL>> = vec![Some(HL::default()), Some(HL::default()), None];
        let mut tr = vec![];
        let add = |a: &mut HL, b: &HL| {
            a.count += b.count;
            a.sum += b.sum;
            a.lo += b.lo;
        };
        for (step, op) in hist.iter().enumerate() {
            match op {
                HOp::ObserveLo(i) => {
                    locals[*i].as_ref().unwrap().observe(0.5);
                    add(m_pending[*i].as_mut().unwrap(), &HL { count: 1, sum: 0.5, lo: 1 });
                }
                HOp::ObserveHi(i) => {
                    locals[*i].as_ref().unwrap().observe(4.0);
                    add(m_pending[*i].as_mut().unwrap(), &HL { count: 1, sum: 4.0, lo: 0 });
                }
                HOp::ObserveNeg(i) => {
                    locals[*i].as_ref().unwrap().observe(-8.0);
                    add(m_pending[*i].as_mut().unwrap(), &HL { count: 1, sum: -8.0, lo: 1 });
                }
                HOp::Flush(i) => {
                    locals[*i].as_ref().unwrap().flush();
                    let p = m_pending[*i].replace(HL::default()).unwrap();
                    add(&mut m_shared, &p);
                }
                HOp::Clear(i) => {
                    locals[*i].as_ref().unwrap().clear();
                    m_pending[*i] = Some(HL::default());
                }
                HOp::Clone(i) => {
                    let p = locals.iter().position(|l| l.is_none()).unwrap();
                    let c = locals[*i].as_ref().unwrap().clone();
                    locals[p] = Some(c);
                    m_pending[p] = Some(HL::default());
                }
                HOp::Drop(i) => {
                    locals[*i] = None; // dropping a local histogram flushes it
                    let p = m_pending[*i].take().unwrap();
                    add(&mut m_shared, &p);
                }
                HOp::DropUnwinding(i) => {
                    drop_while_unwinding(locals[*i].take());
                    let p = m_pending[*i].take().unwrap();
                    add(&mut m_shared, &p);
                }
                HOp::SharedObserve => {
                    shared.observe(32.0);
                    add(&mut m_shared, &HL { count: 1, sum: 32.0, lo: 0 });
                }
            }
            let got = snap(&shared);
            let got_p: Vec<Option<(u64, f64)>> = locals.iter().map(|l| l.as_ref().map(|l| (l.get_sample_count(), l.get_sample_sum()))).collect();
            let exp_p: Vec<Option<(u64, f64)>> = m_pending.iter().map(|p| p.as_ref().map(|p| (p.count, p.sum))).collect();
            tr.push(format!("{:?}: shared impl {:?} / model {:?}; pending impl {:?} / model {:?}", op, got, m_shared, got_p, exp_p));
            if got != m_shared {
                return Err(dis(&format!("histogram:shared-after-{}", opname(op)), format!("step {} {:?}: shared histogram {:?} but ledger says {:?}", step, op, got, m_shared), &tr));
            }
            if shared.get_sample_count() != m_shared.count || shared.get_sample_sum() != m_shared.sum {
                return Err(dis("histogram:get_sample-accessors", format!("step {} {:?}: get_sample_count/sum {} {} vs ledger {:?}", step, op, shared.get_sample_count(), shared.get_sample_sum(), m_shared), &tr));
            }
            if got_p != exp_p {
                return Err(dis(&format!("histogram:pending-after-{}", opname(op)), format!("step {} {:?}: local (count,sum) {:?} but ledger says {:?}", step, op, got_p, exp_p), &tr));
            }
        }
        Ok(format!("{:?}|{:?}", m_shared, m_pending))
    }
}

// -------------------------------------------------------------- vector models

#[derive(Clone, Debug, PartialEq, Eq, Hash, serde::Serialize, serde::Deserialize)]
enum VOp {
    /// local vec j: with_label_values([k]) then update
    LvUpd(usize, usize),
    LvFlush(usize),
    LvRemove(usize, usize),
    LvClone(usize),
    LvDrop(usize),
    /// drop the local vector while the thread is unwinding from a panic
    LvDropUnwinding(usize),
    /// direct update through the shared vector
    VUpd(usize),
    /// update through a handle to child "a" obtained at the start
    HandleUpd,
}

enum LV {
    C(LocalCounterVec),
    I(LocalIntCounterVec),
    H(LocalHistogramVec),
}
enum SV {
    C(CounterVec),
    I(IntCounterVec),
    H(HistogramVec),
}

#[derive(Clone, Copy, PartialEq, Eq, Debug)]
enum VK {
    Counter,
    IntCounter,
    Histogram,
}

struct VecSut {
    kind: VK,
    merge: bool,
}

impl SV {
    fn local(&self) -> LV {
        match self {
            SV::C(v) => LV::C(v.local()),
            SV::I(v) => LV::I(v.local()),
            SV::H(v) => LV::H(v.local()),
        }
    }
    /// mapped children: key -> (count, sum); counters use sum only
    fn collect(&self) -> BTreeMap<String, (u64, f64)> {
        let mfs = match self {
            SV::C(v) => v.collect(),
            SV::I(v) => v.collect(),
            SV::H(v) => v.collect(),
        };
        let mut out = BTreeMap::new();
        for m in mfs[0].get_metric() {
            let k = m.get_label()[0].value().to_string();
            let val = match self {
                SV::H(_) => (m.get_histogram().get_sample_count(), m.get_histogram().get_sample_sum()),
                _ => (0, m.get_counter().value()),
            };
            if out.insert(k.clone(), val).is_some() {
                out.insert(format!("DUPLICATE:{}", k), val);
            }
        }
        out
    }
}

impl Sut for VecSut {
    type Op = VOp;
    fn merge_states(&self) -> bool {
        self.merge
    }
    fn ops(&self, hist: &[VOp]) -> Vec<VOp> {
        let mut alive = vec![true, true, false];
        for o in hist {
            match o {
                VOp::LvClone(_) => {
                    if let Some(p) = alive.iter().position(|a| !a) {
                        alive[p] = true;
                    }
                }
                VOp::LvDrop(i) | VOp::LvDropUnwinding(i) => alive[*i] = false,
                _ => {}
            }
        }
        let mut v = vec![];
        for j in 0..SLOTS {
            if alive[j] {
                v.extend([VOp::LvUpd(j, 0), VOp::LvFlush(j), VOp::LvRemove(j, 0)]);
            }
        }
        for j in 0..SLOTS {
            if alive[j] {
                v.extend([VOp::LvUpd(j, 1), VOp::LvRemove(j, 1)]);
                if alive.iter().any(|a| !a) {
                    v.push(VOp::LvClone(j));
                }
                v.push(VOp::LvDrop(j));
                if j == 1 && self.kind == VK::Histogram {
                    v.push(VOp::LvDropUnwinding(j));
                }
            }
        }
        v.extend([VOp::VUpd(0), VOp::VUpd(1), VOp::HandleUpd]);
        v
    }

    fn replay(&self, hist: &[VOp]) -> Result<String, Disagreement> {
        let hist_kind = self.kind == VK::Histogram;
        let shared = match self.kind {
            VK::Counter => SV::C(CounterVec::new(Opts::new("v", "h"), &["l"]).unwrap()),
            VK::IntCounter => SV::I(IntCounterVec::new(Opts::new("v", "h"), &["l"]).unwrap()),
            VK::Histogram => SV::H(HistogramVec::new(HistogramOpts::new("v", "h"), &["l"]).unwrap()),
        };
        // reference: children by id, map key -> id, locals: per slot key -> (child id, pending)
        let mut children: Vec<(u64, f64)> = vec![(0, 0.0)];
        let mut map: BTreeMap<String, usize> = BTreeMap::new();
        map.insert("a".into(), 0);
        // harness handle to the initial child "a"
        enum Hd {
            C(Counter),
            I(IntCounter),
            H(Histogram),
        }
        let handle = match &shared {
            SV::C(v) => Hd::C(v.with_label_values(&["a"])),
            SV::I(v) => Hd::I(v.with_label_values(&["a"])),
            SV::H(v) => Hd::H(v.with_label_values(&["a"])),
        };
        let mut locals: Vec<Option<LV>> = vec![Some(shared.local()), Some(shared.local()), None];
        let mut m_locals: Vec<Option<BTreeMap<String, (usize, (u64, f64))>>> = vec![Some(BTreeMap::new()), Some(BTreeMap::new()), None];
        let mut tr = vec![];
        for (step, op) in hist.iter().enumerate() {
            let mut res_note = String::new();
            match op {
                VOp::LvUpd(j, k) => {
                    let key = KEYS[*k];
                    match locals[*j].as_mut().unwrap() {
                        LV::C(l) => l.with_label_values(&[key]).inc_by(1.5),
                        LV::I(l) => l.with_label_values(&[key]).inc_by(1),
                        LV::H(l) => l.with_label_values(&[key]).observe(1.5),
                    }
                    let ml = m_locals[*j].as_mut().unwrap();
                    if !ml.contains_key(key) {
                        let cid = *map.entry(key.to_string()).or_insert_with(|| {
                            children.push((0, 0.0));
                            children.len() - 1
                        });
                        ml.insert(key.to_string(), (cid, (0, 0.0)));
                    }
                    let e = ml.get_mut(key).unwrap();
                    e.1 .0 += 1;
                    e.1 .1 += if self.kind == VK::IntCounter { 1.0 } else { 1.5 };
                }
                VOp::LvFlush(j) => {
                    match locals[*j].as_ref().unwrap() {
                        LV::C(l) => l.flush(),
                        LV::I(l) => l.flush(),
                        LV::H(l) => l.flush(),
                    }
                    for (_, (cid, p)) in m_locals[*j].as_mut().unwrap().iter_mut() {
                        children[*cid].0 += p.0;
                        children[*cid].1 += p.1;
                        *p = (0, 0.0);
                    }
                }
                VOp::LvRemove(j, k) => {
                    let key = KEYS[*k];
                    let r = match locals[*j].as_mut().unwrap() {
                        LV::C(l) => l.remove_label_values(&[key]).is_ok(),
                        LV::I(l) => l.remove_label_values(&[key]).is_ok(),
                        LV::H(l) => l.remove_label_values(&[key]).is_ok(),
                    };
                    // the local entry goes away (a histogram flushes on drop, a counter discards)
                    if let Some((cid, p)) = m_locals[*j].as_mut().unwrap().remove(key) {
                        if hist_kind {
                            children[cid].0 += p.0;
                            children[cid].1 += p.1;
                        }
                    }
                    let exp = map.remove(key).is_some();
                    res_note = format!(" -> impl ok={} / model ok={}", r, exp);
                    if r != exp {
                        tr.push(format!("{:?}{}", op, res_note));
                        return Err(dis("vec:remove-result", format!("step {} {:?}: remove_label_values ok={} but reference says ok={}", step, op, r, exp), &tr));
                    }
                }
                VOp::LvClone(j) => {
                    let p = locals.iter().position(|l| l.is_none()).unwrap();
                    let c = match locals[*j].as_ref().unwrap() {
                        LV::C(l) => LV::C(l.clone()),
                        LV::I(l) => LV::I(l.clone()),
                        LV::H(l) => LV::H(l.clone()),
                    };
                    locals[p] = Some(c);
                    m_locals[p] = Some(BTreeMap::new());
                }
                VOp::LvDrop(j) | VOp::LvDropUnwinding(j) => {
                    if let VOp::LvDropUnwinding(_) = op {
                        drop_while_unwinding(locals[*j].take());
                    }
                    locals[*j] = None;
                    let ml = m_locals[*j].take().unwrap();
                    if hist_kind {
                        for (_, (cid, p)) in ml {
                            children[cid].0 += p.0;
                            children[cid].1 += p.1;
                        }
                    }
                }
                VOp::VUpd(k) => {
                    let key = KEYS[*k];
                    match &shared {
                        SV::C(v) => v.with_label_values(&[key]).inc_by(16.0),
                        SV::I(v) => v.with_label_values(&[key]).inc_by(16),
                        SV::H(v) => v.with_label_values(&[key]).observe(16.0),
                    }
                    let cid = *map.entry(key.to_string()).or_insert_with(|| {
                        children.push((0, 0.0));
                        children.len() - 1
                    });
                    children[cid].0 += 1;
                    children[cid].1 += 16.0;
                }
                VOp::HandleUpd => {
                    match &handle {
                        Hd::C(h) => h.inc_by(64.0),
                        Hd::I(h) => h.inc_by(64),
                        Hd::H(h) => h.observe(64.0),
                    }
                    children[0].0 += 1;
                    children[0].1 += 64.0;
                }
            }
            let got = shared.collect();
            let exp: BTreeMap<String, (u64, f64)> = map.iter().map(|(k, cid)| (k.clone(), if hist_kind { children[*cid] } else { (0, children[*cid].1) })).collect();
            let hv = match &handle {
                Hd::C(h) => (0, h.get()),
                Hd::I(h) => (0, h.get() as f64),
                Hd::H(h) => (h.get_sample_count(), h.get_sample_sum()),
            };
            let hexp = if hist_kind { children[0] } else { (0, children[0].1) };
            tr.push(format!("{:?}{}: vec impl {:?} / model {:?}; handle impl {:?} / model {:?}", op, res_note, got, exp, hv, hexp));
            if got != exp {
                return Err(dis(&format!("vec:{:?}:shared-after-{}", self.kind, opname(op)), format!("step {} {:?}: vector collects {:?} but ledger says {:?}", step, op, got, exp), &tr));
            }
            if hv != hexp {
                return Err(dis(&format!("vec:{:?}:handle-after-{}", self.kind, opname(op)), format!("step {} {:?}: kept handle shows {:?} but ledger says {:?}", step, op, hv, hexp), &tr));
            }
        }
        Ok(format!("{:?}|{:?}|{:?}", children, map, m_locals))
    }
}

fn main() {
    let args = parse_args();
    quiet_panics();
    let mut rep = Report::new("C12", &args);
    let thorough = args.tier == Tier::Thorough;
    if let Some(p) = &args.replay {
        let doc = read_replay(p);
        let model = doc["model"].as_str().unwrap_or("").trim_start_matches("merged:").to_string();
        let rc = match model.as_str() {
            "local-counter-f64" => replay_cli("C12", p, &doc, &CounterSut { int: false, merge: false, scale: 1.0 }),
            "local-counter-int" => replay_cli("C12", p, &doc, &CounterSut { int: true, merge: false, scale: 1.0 }),
            "local-counter-f64-tiny" => replay_cli("C12", p, &doc, &CounterSut { int: false, merge: false, scale: (2.0f64).powi(-60) }),
            "local-histogram" => replay_cli("C12", p, &doc, &HistSut { merge: false }),
            "local-counter-vec" => replay_cli("C12", p, &doc, &VecSut { kind: VK::Counter, merge: false }),
            "local-int-counter-vec" => replay_cli("C12", p, &doc, &VecSut { kind: VK::IntCounter, merge: false }),
            "local-histogram-vec" => replay_cli("C12", p, &doc, &VecSut { kind: VK::Histogram, merge: false }),
            _ => 2,
        };
        std::process::exit(rc);
    }
    let depth = if thorough { 6 } else { 5 };
    let vdepth = if thorough { 5 } else { 4 };
    rep.rule = format!("explicit-state BFS (stateright) over all histories up to depth {} (vector models: {}) of the operation menus of 6 models: float/int local counter {{inc, inc_by, flush, reset, clone, drop, shared inc, shared reset}} over <=3 local handles; local histogram {{observe lo/hi/negative, flush, clear, clone, drop(=flush), drop during unwinding(=flush), shared observe}}; local counter vec (float, int) and local histogram vec {{with_label_values(k)+update, flush, remove_label_values(k), clone, drop, direct vec update, update through a kept handle}} over keys {{a,b}} and <=3 local vecs. Each transition replays the history on fresh real objects and compares shared values, pending values and collected children with the ledger after every step. distinct = unique (depth, ledger state) pairs", depth, vdepth);
    rep.bounds = json!({"depth": depth, "vec_depth": vdepth, "local_handles": SLOTS, "keys": KEYS});
    let t = if thorough { 900 } else { 100 };
    // (1) plain exhaustive enumeration of histories (no state merging)
    explore(CounterSut { int: false, merge: false, scale: 1.0 }, depth, t, "local-counter-f64", &mut rep);
    explore(CounterSut { int: true, merge: false, scale: 1.0 }, depth, t, "local-counter-int", &mut rep);
    // the same histories with every amount scaled by 2^-60 (far below f64::EPSILON: "is it zero?" must not be "is it small?")
    explore(CounterSut { int: false, merge: false, scale: (2.0f64).powi(-60) }, depth - 1, t, "local-counter-f64-tiny", &mut rep);
    explore(HistSut { merge: false }, depth, t, "local-histogram", &mut rep);
    explore(VecSut { kind: VK::Counter, merge: false }, vdepth, t, "local-counter-vec", &mut rep);
    explore(VecSut { kind: VK::IntCounter, merge: false }, vdepth, t, "local-int-counter-vec", &mut rep);
    explore(VecSut { kind: VK::Histogram, merge: false }, vdepth, t, "local-histogram-vec", &mut rep);
    // (2) deeper, merging histories with equal ledger state (sound only as far as the
    //     ledger determines the implementation state; reported separately)
    let md = depth + 2;
    explore(CounterSut { int: false, merge: true, scale: 1.0 }, md, t, "merged:local-counter-f64", &mut rep);
    explore(HistSut { merge: true }, md, t, "merged:local-histogram", &mut rep);
    explore(VecSut { kind: VK::IntCounter, merge: true }, md, t, "merged:local-int-counter-vec", &mut rep);
    explore(VecSut { kind: VK::Histogram, merge: true }, md, t, "merged:local-histogram-vec", &mut rep);
    rep.exhaustive = rep.cap_hit.is_none();
    rep.assumptions = vec![
        "a dropped local counter discards its pending value (the statement promises the flush on drop only for histograms)".into(),
        "histories longer than the depth bound and more than 3 live local handles are not covered".into(),
    ];
    std::process::exit(rep.finish());
}
