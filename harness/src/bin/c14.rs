//! C14 — a gathered family never mixes metric types.
//! E3 over the C07 enumeration with the pool extended by same-name collectors
//! of different kinds. Mixed families for names registered under >=2 kinds are
//! a known finding (known_findings.json); anything else is a violation.

use serde_json::json;
use std::collections::BTreeMap;
use std::sync::Mutex;
use verif_harness::gatherenum::*;
use verif_harness::refmodel::*;
use verif_harness::*;

fn payload_kinds(m: &RMetric) -> Vec<RType> {
    let mut v = vec![];
    if m.counter.is_some() {
        v.push(RType::Counter);
    }
    if m.gauge.is_some() {
        v.push(RType::Gauge);
    }
    if m.histogram.is_some() {
        v.push(RType::Histogram);
    }
    if m.summary.is_some() {
        v.push(RType::Summary);
    }
    if m.untyped.is_some() {
        v.push(RType::Untyped);
    }
    v
}

fn main() {
    let args = parse_args();
    quiet_panics();
    let mut rep = Report::new("C14", &args);
    let thorough = args.tier == Tier::Thorough;
    if let Some(p) = &args.replay {
        let doc = read_replay(p);
        println!("members {} config {} : {}", doc["member_names"], doc["config"], doc["detail"]);
    }
    let max_size = if thorough { 4 } else { 3 };
    // subsets over the whole pool (incl. the three `mix` collectors) that contain a same-name group or a mix collector
    let subsets: Vec<Vec<usize>> = combi::subsets(POOL.len(), 1, max_size)
        .into_iter()
        .filter(|s| thorough || s.iter().any(|i| *i >= 7 && *i != 12) || s.len() <= 2)
        .collect();
    rep.rule = format!("collector pool {:?}; all subsets of size <= {} (quick: those touching a shared metric name, and all of size <= 2) x all registration orders x all registry-internal collect orders x 3 registry configurations (plain, prefix `p`, two common labels); every sample of every gathered family must carry exactly the payload of the family's declared type and the declared type must be the same for all orders. distinct = distinct (subset, family, type, payload kinds) observations", POOL.iter().map(|p| p.name).collect::<Vec<_>>(), max_size);
    rep.bounds = json!({"subset_size": max_size, "pool": POOL.len()});
    let work: Mutex<Vec<Vec<usize>>> = Mutex::new(subsets);
    let reports: Mutex<Vec<Report>> = Mutex::new(vec![]);
    std::thread::scope(|s| {
        for _ in 0..16 {
            s.spawn(|| {
                let mut local = Report::new("C14", &parse_args());
                loop {
                    let members = match work.lock().unwrap().pop() {
                        Some(m) => m,
                        None => break,
                    };
                    // names registered under >= 2 kinds in this subset
                    let mut kinds_by_name: BTreeMap<&str, Vec<RType>> = BTreeMap::new();
                    for &i in &members {
                        let e = kinds_by_name.entry(POOL[i].fq).or_default();
                        if !e.contains(&POOL[i].kind) {
                            e.push(POOL[i].kind);
                        }
                    }
                    for cfg in [configs()[0].clone(), configs()[1].clone(), configs()[3].clone()] {
                        let mut types_seen: BTreeMap<String, Vec<RType>> = BTreeMap::new();
                        let mut gathers = 0u64;
                        let mut bad: Vec<(String, String, serde_json::Value)> = vec![];
                        let r = catch(|| enumerate_orders(&members, &cfg, true, &mut gathers, |run| {
                            if let Some(e) = &run.unregister_error {
                                if bad.len() < 4 {
                                    bad.push(("unregister-failed".to_string(), e.clone(), json!({"engine":"enum","members": run.members, "detail": e})));
                                }
                            }
                            for mf in &run.result {
                                let f = RFamily::from_proto(mf);
                                let base = match run.cfg.prefix {
                                    Some(p) => f.name.strip_prefix(&format!("{}_", p)).unwrap_or(&f.name).to_string(),
                                    None => f.name.clone(),
                                };
                                let e = types_seen.entry(base.clone()).or_default();
                                if !e.contains(&f.typ) {
                                    e.push(f.typ);
                                }
                                for m in &f.metrics {
                                    let pk = payload_kinds(m);
                                    if pk != vec![f.typ] && bad.len() < 4 {
                                        let multi = kinds_by_name.get(base.as_str()).map(|k| k.len() >= 2).unwrap_or(false);
                                        let sig = if multi { "family-name-registered-under-2+-kinds".to_string() } else { format!("foreign-payload-in-single-kind-family:{}", base) };
                                        let detail = format!("family {} declared {:?} holds sample {:?} with payload {:?}", f.name, f.typ, m.labels, pk);
                                        bad.push((sig, detail.clone(), json!({"engine":"enum","members": run.members, "member_names": run.members.iter().map(|i| POOL[*i].name).collect::<Vec<_>>(), "config": format!("{:?}", run.cfg), "registration_order": run.reg_order, "collect_order": run.collect_order, "detail": detail})));
                                    }
                                }
                            }
                        }));
                        local.evaluations += gathers;
                        local.transitions += gathers * (members.len() as u64 + 2);
                        let r = match r {
                            Ok(r) => r,
                            Err(p) => {
                                local.violation("panic", format!("members {:?}: register/gather/unregister panicked: {}", members, p), json!({"engine":"enum","members": members, "detail": p}));
                                Ok(())
                            }
                        };
                        if let Err(e) = r {
                            eprintln!("MACHINERY: {}", e);
                            std::process::exit(2);
                        }
                        for (sig, detail, replay) in bad {
                            local.violation(sig, format!("members {:?}: {}", members.iter().map(|i| POOL[*i].name).collect::<Vec<_>>(), detail), replay);
                        }
                        for (name, ts) in &types_seen {
                            local.outcome(format!("{:?}|{}|{:?}", members, name, ts));
                            if ts.len() > 1 {
                                let multi = kinds_by_name.get(name.as_str()).map(|k| k.len() >= 2).unwrap_or(false);
                                let sig = if multi { "family-name-registered-under-2+-kinds".to_string() } else { format!("unstable-type-of-single-kind-family:{}", name) };
                                local.violation(sig, format!("members {:?}: declared type of family {} depends on the order: {:?}", members.iter().map(|i| POOL[*i].name).collect::<Vec<_>>(), name, ts), json!({"engine":"enum","members": members, "member_names": members.iter().map(|i| POOL[*i].name).collect::<Vec<_>>(), "config": format!("{:?}", cfg), "detail": format!("type of {} varies: {:?}", name, ts)}));
                            }
                        }
                        if local.samples.len() < 2 {
                            local.sample(json!({"members": members.iter().map(|i| POOL[*i].name).collect::<Vec<_>>(), "config": format!("{:?}", cfg), "gathers": gathers, "types": format!("{:?}", types_seen)}));
                        }
                    }
                }
                reports.lock().unwrap().push(local);
            });
        }
    });
    for r in reports.into_inner().unwrap() {
        rep.merge(r);
    }
    rep.states = rep.evaluations;
    rep.traces = rep.evaluations;
    rep.extra.insert("combinations_with_deterministic_collect_order".into(), json!(UNREALISED.load(std::sync::atomic::Ordering::Relaxed)));
    rep.assumptions = vec![
        "collectors are this library's metric types; the known finding is keyed by 'family name registered under two or more metric kinds' — a mixed or unstable family whose collectors are all of one kind is a new violation".into(),
    ];
    std::process::exit(rep.finish());
}
