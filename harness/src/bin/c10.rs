//! C10 — concurrent use of a metric vector is linearizable (E1), and the same
//! sequential behaviour holds for every single-threaded history (E2).

use serde_json::json;
use verif_harness::statespace::{self, Disagreement, Sut};
use verif_harness::vecdrv::*;
use verif_harness::vsched::*;
use verif_harness::*;

fn alphabet() -> Vec<VOp> {
    vec![VOp::W(0, 1.0), VOp::Remove(0), VOp::Collect, VOp::W(1, 1.0), VOp::Reset, VOp::HandleUpd(1.0), VOp::Get(0)]
}

fn instantiate(progs: &[Vec<VOp>]) -> Vec<Vec<VOp>> {
    let mut k = 0;
    progs
        .iter()
        .map(|p| {
            p.iter()
                .map(|op| {
                    let mut pw = || {
                        k += 1;
                        (1u64 << (k - 1)) as f64
                    };
                    match op {
                        VOp::W(key, _) => VOp::W(*key, pw()),
                        VOp::HandleUpd(_) => VOp::HandleUpd(pw()),
                        o => o.clone(),
                    }
                })
                .collect()
        })
        .collect()
}

// ------------------------------------------------------- sequential (E2) part

#[derive(Clone, Debug, PartialEq, Eq, Hash, serde::Serialize, serde::Deserialize)]
enum SOp {
    W(usize),
    Get(usize),
    Remove(usize),
    Reset,
    HandleUpd,
    /// update through the handle obtained by the most recent Get/W (kept across removals)
    LastUpd,
}

struct SeqVec {
    flavour: VFlavour,
    start: Start,
}

impl Sut for SeqVec {
    type Op = SOp;
    fn merge_states(&self) -> bool {
        false
    }
    fn ops(&self, _h: &[SOp]) -> Vec<SOp> {
        let mut v = vec![SOp::W(0), SOp::Remove(0), SOp::W(1), SOp::Reset, SOp::LastUpd, SOp::Get(0), SOp::Remove(1)];
        if self.start != Start::Empty {
            v.push(SOp::HandleUpd);
        }
        v
    }
    fn replay(&self, hist: &[SOp]) -> Result<String, Disagreement> {
        let sh = VecShared::new(self.flavour, self.start);
        // reference: map key -> child id, children values
        let mut children: Vec<f64> = vec![];
        let mut map: [Option<usize>; 2] = [None, None];
        if self.start != Start::Empty {
            children.push(PRE_AMOUNT);
            if self.start == Start::HasA {
                map[0] = Some(0);
            }
        }
        let mut last: Option<(Handle, usize)> = None;
        let mut tr = vec![];
        for (step, op) in hist.iter().enumerate() {
            let amt = (1u64 << step) as f64;
            let mut note = String::new();
            match op {
                SOp::W(k) | SOp::Get(k) => {
                    let h = sh.get(*k).map_err(|e| Disagreement { signature: "seq:get-failed".into(), what: e, transcript: tr.clone() })?;
                    let cid = *map[*k].get_or_insert_with(|| {
                        children.push(0.0);
                        children.len() - 1
                    });
                    if let SOp::W(_) = op {
                        match &h {
                            Handle::I(c) => c.inc_by(amt as u64),
                            Handle::C(c) => c.inc_by(amt),
                            Handle::H(c) => c.observe(amt),
                        }
                        children[cid] += amt;
                    }
                    last = Some((h, cid));
                }
                SOp::Remove(k) => {
                    let r = sh.remove(*k).is_ok();
                    let e = map[*k].take().is_some();
                    note = format!(" -> impl ok={} / model ok={}", r, e);
                    if r != e {
                        tr.push(format!("{:?}{}", op, note));
                        return Err(Disagreement { signature: "seq:remove-result".into(), what: format!("step {} {:?}: ok={} but reference ok={}", step, op, r, e), transcript: tr });
                    }
                }
                SOp::Reset => {
                    sh.reset();
                    map = [None, None];
                }
                SOp::HandleUpd => {
                    if let Some(h) = &sh.kept {
                        match h {
                            Handle::I(c) => c.inc_by(amt as u64),
                            Handle::C(c) => c.inc_by(amt),
                            Handle::H(c) => c.observe(amt),
                        }
                        children[0] += amt;
                    }
                }
                SOp::LastUpd => {
                    if let Some((h, cid)) = &last {
                        match h {
                            Handle::I(c) => c.inc_by(amt as u64),
                            Handle::C(c) => c.inc_by(amt),
                            Handle::H(c) => c.observe(amt),
                        }
                        children[*cid] += amt;
                    }
                }
            }
            let got = sh.collect();
            let exp: Vec<(String, f64)> = (0..2).filter_map(|k| map[k].map(|c| (KEYS[k].to_string(), children[c]))).collect();
            tr.push(format!("{:?}{}: collect impl {:?} / model {:?}", op, note, got, exp));
            if got != verif_harness::vsched::Val::Kids(exp.clone()) {
                return Err(Disagreement {
                    signature: format!("seq:collect-after-{}", format!("{:?}", op).split('(').next().unwrap()),
                    what: format!("step {} {:?}: vector collects {:?}, reference {:?}", step, op, got, exp),
                    transcript: tr,
                });
            }
        }
        Ok(format!("{:?}|{:?}", map, children))
    }
}

fn main() {
    let args = parse_args();
    quiet_panics();
    let mut rep = Report::new("C10", &args);
    let thorough = args.tier == Tier::Thorough;
    // deviation budget: at most one spurious compare_exchange_weak failure per execution
    if let Some(p) = &args.replay {
        let doc = read_replay(p);
        if doc["engine"] == "vsched" {
            std::process::exit(replay_cli("C10", p, &doc, VecDriver::from_spec));
        }
        // sequential model "seq:<flavour>:<start>"
        let model = doc["model"].as_str().unwrap_or("").to_string();
        let parts: Vec<&str> = model.split(':').collect();
        let flavour = [VFlavour::IntCounterList, VFlavour::CounterMap, VFlavour::HistogramList].into_iter().find(|f| format!("{:?}", f) == *parts.get(1).unwrap_or(&""));
        let start = [Start::Empty, Start::HasA, Start::RemovedA].into_iter().find(|f| format!("{:?}", f) == *parts.get(2).unwrap_or(&""));
        match (flavour, start) {
            (Some(flavour), Some(start)) => std::process::exit(statespace::replay_cli("C10", p, &doc, &SeqVec { flavour, start })),
            _ => std::process::exit(2),
        }
    }
    let alpha = alphabet();
    let starts = [Start::Empty, Start::HasA, Start::RemovedA];
    let mut drivers = vec![];
    let flavours = [VFlavour::IntCounterList, VFlavour::CounterMap, VFlavour::HistogramList];
    for (fi, &f) in flavours.iter().enumerate() {
        // quick: full alphabet for the int-counter vector, the first 5 letters for the others
        let a: Vec<VOp> = if thorough || fi == 0 { alpha.clone() } else { alpha[..4].to_vec() };
        let max_len = 2;
        let progs: Vec<Vec<VOp>> = combi::sequences_upto(a.len(), max_len).filter(|s| !s.is_empty()).map(|s| s.iter().map(|&i| a[i].clone()).collect()).collect();
        for i in 0..progs.len() {
            for j in i..progs.len() {
                let st = starts[(i + j) % 3];
                if !thorough && progs[i].len() + progs[j].len() > 3 {
                    continue;
                }
                let uses_handle = |p: &Vec<VOp>| p.iter().any(|o| matches!(o, VOp::HandleUpd(_)));
                let st = if (uses_handle(&progs[i]) || uses_handle(&progs[j])) && st == Start::Empty { Start::HasA } else { st };
                drivers.push(VecDriver { flavour: f, start: st, programs: instantiate(&[progs[i].clone(), progs[j].clone()]), ballast: 0, salt: 0 });
            }
        }
        // all unordered triples of 1-operation programs (e.g. creator | creator | remover of another key)
        if thorough || fi == 0 {
            let one: Vec<VOp> = vec![VOp::W(0, 1.0), VOp::W(1, 1.0), VOp::Remove(0), VOp::Remove(1), VOp::Reset, VOp::Collect];
            for i in 0..one.len() {
                for j in i..one.len() {
                    for k in j..one.len() {
                        for st in starts {
                            if !thorough && st == Start::Empty && ![i, j, k].iter().any(|x| *x <= 1) {
                                continue;
                            }
                            drivers.push(VecDriver { flavour: f, start: st, programs: instantiate(&[vec![one[i].clone()], vec![one[j].clone()], vec![one[k].clone()]]), ballast: 0, salt: 0 });
                        }
                    }
                }
            }
        }
        // three-thread drivers
        for st in starts {
            let w = |k| vec![VOp::W(k, 1.0)];
            let three: Vec<Vec<Vec<VOp>>> = vec![
                vec![w(0), w(0), vec![VOp::Collect]],
                vec![w(0), vec![VOp::Remove(0)], vec![VOp::Collect]],
                vec![w(0), vec![VOp::Reset], w(0)],
                vec![w(0), vec![VOp::Remove(0)], w(0)],
                vec![w(0), w(1), vec![VOp::Collect]],
            ];
            for p in three {
                drivers.push(VecDriver { flavour: f, start: st, programs: instantiate(&p), ballast: 0, salt: 0 });
            }
        }
    }
    // vectors that already hold many children (sizes around powers of two, where a table would grow or a side table
    // would be merged): a creator against a collector / a toucher of an old child / a remover
    let sizes: &[usize] = if thorough { &[3, 4, 7, 8, 15, 16, 31, 32, 63, 64, 65, 66, 127, 128, 129] } else { &[7, 8, 15, 16, 31, 32, 63, 64, 65, 128] };
    let mut big = vec![];
    for &n in sizes {
        for (fi, &f) in flavours.iter().enumerate() {
            if !thorough && fi == 2 {
                continue;
            }
            let w = |k| VOp::W(k, 1.0);
            let shapes: Vec<(Start, Vec<Vec<VOp>>)> = vec![
                (Start::Empty, vec![vec![w(0)], vec![VOp::Collect]]),
                (Start::Empty, vec![vec![w(0)], vec![VOp::BTouch(0), VOp::Collect]]),
                (Start::HasA, vec![vec![w(1), VOp::Collect], vec![VOp::BTouch(n - 1)]]),
                (Start::HasA, vec![vec![w(1)], vec![VOp::Remove(0), VOp::Collect]]),
                (Start::RemovedA, vec![vec![w(0)], vec![w(1), VOp::Collect]]),
                // a collector against a size-preserving remove + create pair
                (Start::HasA, vec![vec![VOp::Collect], vec![VOp::Remove(0), w(1)]]),
                (Start::HasA, vec![vec![VOp::Collect], vec![w(1), VOp::Remove(0)]]),
            ];
            for (si, (st, p)) in shapes.into_iter().enumerate() {
                // the collector-against-remove+create shapes (the last two): several arrangements of the keys among the others
                let salts = if si >= 5 && n >= 63 { if thorough { 8 } else { 4 } } else { 1 };
                for salt in 0..salts {
                    big.push(VecDriver { flavour: f, start: st, programs: instantiate(&p), ballast: n, salt });
                }
            }
        }
    }
    // a collector overtaken by a run of structural operations (create, remove, create again) followed by an update of
    // an old child through a kept handle
    for &f in &flavours {
        let p = vec![vec![VOp::Collect], vec![VOp::W(1, 1.0), VOp::Remove(1), VOp::W(1, 1.0), VOp::HandleUpd(1.0)]];
        big.push(VecDriver { flavour: f, start: Start::HasA, programs: instantiate(&p), ballast: 0, salt: 0 });
        if thorough {
            let p = vec![vec![VOp::Collect], vec![VOp::W(1, 1.0), VOp::Reset, VOp::W(0, 1.0), VOp::Remove(0), VOp::W(1, 1.0), VOp::HandleUpd(1.0)]];
            big.push(VecDriver { flavour: f, start: Start::HasA, programs: instantiate(&p), ballast: 0, salt: 0 });
        }
    }
    let nbig = big.len();
    let nd = drivers.len() + nbig;
    rep.rule = format!("(E1) stateless exploration (vsched, Mode U with sleep sets, fallback preemption bound) of all interleavings at lock/atomic operations and call boundaries of: for 3 vector flavours (IntCounterVec list form, CounterVec map form, HistogramVec), all unordered pairs of programs of <=2 operations over {:?} (quick: pairs of total length <=3; reduced alphabet for the 2nd and 3rd flavour; 3-thread HistogramVec drivers preemption-bounded) all unordered triples of 1-operation programs over {{W(a),W(b),remove(a),remove(b),reset,collect}} (quick: IntCounterVec only) and five 3-thread drivers with 2-call programs (creator|creator|collector, creator|remover|collector, creator|reset|creator, creator|remover|creator, creator(a)|creator(b)|collector), from 3 start states (empty / holding key a with a kept handle / a created-and-removed with a kept handle); oracle: Wing-Gong linearizability against a map key->child where collected child values are decoded (distinct powers of two) and judged per child with interval semantics, so they show which child object every handle pointed to. (E2) all sequential histories up to depth {} over {{W(a),W(b),get(a),remove(a),remove(b),reset,update through the last handle, update through the kept handle}} for each flavour and start state, collect compared with the reference after every step. distinct = distinct (results, real-time relation) outcomes + unique sequential states", alpha, if thorough { 6 } else { 5 });
    rep.bounds = json!({"threads": "2-3", "ops_per_thread": 2, "keys": KEYS, "e1_drivers": nd, "seq_depth": if thorough {6} else {5}});
    let cap = if thorough { 1_000_000 } else { 300_000 };
    // quick tier: the 3-thread HistogramVec drivers (a histogram collect is ~15 steps) and the 1-operation triples are
    // explored with a bound of 2 preemptions instead of unboundedly
    // heavy = 3-thread drivers on HistogramVec and (quick only) the 1-call triples: preemption-bounded (quick 2, thorough 3)
    let (heavy, light): (Vec<VecDriver>, Vec<VecDriver>) = drivers.into_iter().partition(|d| d.programs.len() == 3 && (d.flavour == VFlavour::HistogramList || (!thorough && d.programs.iter().all(|p| p.len() == 1))));
    let cl = |d: &VecDriver| VecDriver { flavour: d.flavour, start: d.start, programs: d.programs.clone(), ballast: d.ballast, salt: d.salt };
    // deviation budget (one spurious weak-CAS failure): thorough tier, two-thread drivers with at most 3 calls
    let (dev, nodev): (Vec<VecDriver>, Vec<VecDriver>) = light.into_iter().partition(|d| thorough && d.programs.len() == 2 && d.programs.iter().map(|p| expand(p).len()).sum::<usize>() <= 3);
    SPURIOUS_BUDGET.store(1, std::sync::atomic::Ordering::Relaxed);
    let mut results = explore_many(dev, Mode::U, cap, 3, 16, cl);
    SPURIOUS_BUDGET.store(0, std::sync::atomic::Ordering::Relaxed);
    results.extend(explore_many(nodev, Mode::U, cap, 3, 16, cl));
    results.extend(explore_many(heavy, Mode::B(if thorough { 3 } else { 2 }), cap, 2, 16, cl));
    let t_big = std::time::Instant::now();
    let big_results = explore_many(big, Mode::U, cap, 3, 16, cl);
    eprintln!("large-vector drivers: {} drivers, {} executions, {:.1}s", nbig, big_results.iter().map(|r| r.2.executions).sum::<u64>(), t_big.elapsed().as_secs_f64());
    results.extend(big_results);
    let summary = fold_results(&mut rep, results);
    rep.extra.insert("modes".into(), summary);
    let e1_execs = rep.evaluations;
    eprintln!("E1 part: {} executions in {:.1}s", e1_execs, rep.elapsed_s());
    for &f in &flavours {
        for st in starts {
            statespace::explore(SeqVec { flavour: f, start: st }, if thorough { 6 } else { 5 }, 600, &format!("seq:{:?}:{:?}", f, st), &mut rep);
        }
    }
    rep.extra.insert("e1_executions".into(), json!(e1_execs));
    rep.assumptions = vec![
        "SC interleavings in program order (the children map is only touched under its RwLock; children are single atomic cells)".into(),
        "2 keys, <=3 threads, <=2 operations per thread, sequential depth bound".into(),
    ];
    std::process::exit(rep.finish());
}
