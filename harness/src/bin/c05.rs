//! C05 — a metric vector keeps exactly one child per distinct label-value tuple.
//! Bounded-exhaustive enumeration (E3): all value tuples over a boundary-shifting
//! string pool, arity 1–3, every vector kind, list and map request forms,
//! against a `BTreeMap<tuple, total>` reference.

use prometheus::core::Collector;
use prometheus::local::{LocalCounterVec, LocalHistogramVec, LocalIntCounterVec};
use prometheus::{CounterVec, GaugeVec, HistogramOpts, HistogramVec, IntCounterVec, IntGaugeVec, Opts};
use serde_json::{json, Value};
use std::collections::{BTreeMap, HashMap};
use verif_harness::*;

const POOL: [&str; 18] = [
    "", "a", "b", "ab", "ba", "aa", "\u{e9}", "e\u{301}", "\u{0}", "a\u{7f}", "\u{1F600}", ",", "|", "/", "\u{1}", "\u{ff}", " ", "=",
];

#[derive(Clone, Copy, Debug, PartialEq, Eq)]
enum Kind {
    Counter,
    IntCounter,
    Gauge,
    IntGauge,
    Histogram,
    LocalCounter,
    LocalIntCounter,
    LocalHistogram,
}

const KINDS: [Kind; 8] = [
    Kind::Counter,
    Kind::IntCounter,
    Kind::Gauge,
    Kind::IntGauge,
    Kind::Histogram,
    Kind::LocalCounter,
    Kind::LocalIntCounter,
    Kind::LocalHistogram,
];

enum V {
    C(CounterVec),
    IC(IntCounterVec),
    G(GaugeVec),
    IG(IntGaugeVec),
    H(HistogramVec),
    LC(CounterVec, LocalCounterVec),
    LIC(IntCounterVec, LocalIntCounterVec),
    LH(HistogramVec, LocalHistogramVec),
}

#[derive(Clone, Debug)]
struct Config {
    kind: Kind,
    names: Vec<&'static str>,
    consts: Vec<(&'static str, &'static str)>,
}

type Labels = Vec<(String, String)>;

impl V {
    fn new(cfg: &Config) -> Result<V, String> {
        let mut opts = Opts::new("m", "help");
        for (k, v) in &cfg.consts {
            opts = opts.const_label(*k, *v);
        }
        let e = |e: prometheus::Error| e.to_string();
        Ok(match cfg.kind {
            Kind::Counter => V::C(CounterVec::new(opts, &cfg.names).map_err(e)?),
            Kind::IntCounter => V::IC(IntCounterVec::new(opts, &cfg.names).map_err(e)?),
            Kind::Gauge => V::G(GaugeVec::new(opts, &cfg.names).map_err(e)?),
            Kind::IntGauge => V::IG(IntGaugeVec::new(opts, &cfg.names).map_err(e)?),
            Kind::Histogram => V::H(HistogramVec::new(HistogramOpts::from(opts), &cfg.names).map_err(e)?),
            Kind::LocalCounter => {
                let v = CounterVec::new(opts, &cfg.names).map_err(e)?;
                let l = v.local();
                V::LC(v, l)
            }
            Kind::LocalIntCounter => {
                let v = IntCounterVec::new(opts, &cfg.names).map_err(e)?;
                let l = v.local();
                V::LIC(v, l)
            }
            Kind::LocalHistogram => {
                let v = HistogramVec::new(HistogramOpts::from(opts), &cfg.names).map_err(e)?;
                let l = v.local();
                V::LH(v, l)
            }
        })
    }

    fn is_local(&self) -> bool {
        matches!(self, V::LC(..) | V::LIC(..) | V::LH(..))
    }

    /// Request by list form, return the child's value before the bump, bump by `amt`.
    fn bump_list(&mut self, vals: &[&str], amt: u32) -> Result<f64, String> {
        let e = |e: prometheus::Error| e.to_string();
        Ok(match self {
            V::C(v) => {
                let c = v.get_metric_with_label_values(vals).map_err(e)?;
                let b = c.get();
                c.inc_by(amt as f64);
                b
            }
            V::IC(v) => {
                let c = v.get_metric_with_label_values(vals).map_err(e)?;
                let b = c.get();
                c.inc_by(amt as u64);
                b as f64
            }
            V::G(v) => {
                let c = v.get_metric_with_label_values(vals).map_err(e)?;
                let b = c.get();
                c.add(amt as f64);
                b
            }
            V::IG(v) => {
                let c = v.get_metric_with_label_values(vals).map_err(e)?;
                let b = c.get();
                c.add(amt as i64);
                b as f64
            }
            V::H(v) => {
                let c = v.get_metric_with_label_values(vals).map_err(e)?;
                let b = c.get_sample_sum();
                c.observe(amt as f64);
                b
            }
            // local forms: "before" is the pending local value; totals are judged after flush
            V::LC(_, l) => {
                if vals.len() != ARITY.with(|a| a.get()) {
                    return Err("arity (local with_label_values would panic by contract)".into());
                }
                let c = l.with_label_values(vals);
                c.inc_by(amt as f64);
                0.0
            }
            V::LIC(_, l) => {
                if vals.len() != ARITY.with(|a| a.get()) {
                    return Err("arity (local with_label_values would panic by contract)".into());
                }
                let c = l.with_label_values(vals);
                c.inc_by(amt as u64);
                0.0
            }
            V::LH(_, l) => {
                if vals.len() != ARITY.with(|a| a.get()) {
                    return Err("arity (local with_label_values would panic by contract)".into());
                }
                let c = l.with_label_values(vals);
                c.observe(amt as f64);
                0.0
            }
        })
    }

    fn bump_map(&mut self, m: &HashMap<&str, &str>, amt: u32) -> Result<f64, String> {
        let e = |e: prometheus::Error| e.to_string();
        Ok(match self {
            V::C(v) => {
                let c = v.get_metric_with(m).map_err(e)?;
                let b = c.get();
                c.inc_by(amt as f64);
                b
            }
            V::IC(v) => {
                let c = v.get_metric_with(m).map_err(e)?;
                let b = c.get();
                c.inc_by(amt as u64);
                b as f64
            }
            V::G(v) => {
                let c = v.get_metric_with(m).map_err(e)?;
                let b = c.get();
                c.add(amt as f64);
                b
            }
            V::IG(v) => {
                let c = v.get_metric_with(m).map_err(e)?;
                let b = c.get();
                c.add(amt as i64);
                b as f64
            }
            V::H(v) | V::LH(v, _) => {
                let c = v.get_metric_with(m).map_err(e)?;
                let b = c.get_sample_sum();
                c.observe(amt as f64);
                b
            }
            V::LC(v, _) => {
                let c = v.get_metric_with(m).map_err(e)?;
                let b = c.get();
                c.inc_by(amt as f64);
                b
            }
            V::LIC(v, _) => {
                let c = v.get_metric_with(m).map_err(e)?;
                let b = c.get();
                c.inc_by(amt as u64);
                b as f64
            }
        })
    }

    fn flush(&mut self) {
        match self {
            V::LC(_, l) => l.flush(),
            V::LIC(_, l) => l.flush(),
            V::LH(_, l) => l.flush(),
            _ => {}
        }
    }

    fn remove_list(&mut self, vals: &[&str]) -> Result<(), String> {
        let e = |e: prometheus::Error| e.to_string();
        match self {
            V::C(v) => v.remove_label_values(vals).map_err(e),
            V::IC(v) => v.remove_label_values(vals).map_err(e),
            V::G(v) => v.remove_label_values(vals).map_err(e),
            V::IG(v) => v.remove_label_values(vals).map_err(e),
            V::H(v) => v.remove_label_values(vals).map_err(e),
            V::LC(_, l) => l.remove_label_values(vals).map_err(e),
            V::LIC(_, l) => l.remove_label_values(vals).map_err(e),
            V::LH(_, l) => l.remove_label_values(vals).map_err(e),
        }
    }

    /// Remove through the shared vector behind a local vector (None for non-local kinds).
    fn shared_remove_list(&mut self, vals: &[&str]) -> Option<Result<(), String>> {
        let e = |e: prometheus::Error| e.to_string();
        match self {
            V::LC(v, _) => Some(v.remove_label_values(vals).map_err(e)),
            V::LIC(v, _) => Some(v.remove_label_values(vals).map_err(e)),
            V::LH(v, _) => Some(v.remove_label_values(vals).map_err(e)),
            _ => None,
        }
    }

    fn remove_map(&mut self, m: &HashMap<&str, &str>) -> Result<(), String> {
        let e = |e: prometheus::Error| e.to_string();
        match self {
            V::C(v) | V::LC(v, _) => v.remove(m).map_err(e),
            V::IC(v) | V::LIC(v, _) => v.remove(m).map_err(e),
            V::G(v) => v.remove(m).map_err(e),
            V::IG(v) => v.remove(m).map_err(e),
            V::H(v) | V::LH(v, _) => v.remove(m).map_err(e),
        }
    }

    /// Collected children: sorted (label pairs sorted by name) -> value (histograms: sum, and count packed in the check).
    fn collect(&self) -> Result<Vec<(Labels, f64, u64)>, String> {
        let mfs = match self {
            V::C(v) | V::LC(v, _) => v.collect(),
            V::IC(v) | V::LIC(v, _) => v.collect(),
            V::G(v) => v.collect(),
            V::IG(v) => v.collect(),
            V::H(v) | V::LH(v, _) => v.collect(),
        };
        if mfs.len() != 1 {
            return Err(format!("{} families", mfs.len()));
        }
        let mut out = vec![];
        for m in mfs[0].get_metric() {
            let labels: Labels = m
                .get_label()
                .iter()
                .map(|lp| (lp.name().to_string(), lp.value().to_string()))
                .collect();
            let (val, cnt) = match self {
                V::C(..) | V::IC(..) | V::LC(..) | V::LIC(..) => (m.get_counter().value(), 0),
                V::G(..) | V::IG(..) => (m.get_gauge().value(), 0),
                V::H(..) | V::LH(..) => (m.get_histogram().get_sample_sum(), m.get_histogram().get_sample_count()),
            };
            out.push((labels, val, cnt));
        }
        out.sort_by(|a, b| a.0.cmp(&b.0));
        Ok(out)
    }
}

thread_local! {
    static ARITY: std::cell::Cell<usize> = const { std::cell::Cell::new(0) };
}

fn expected_labels(cfg: &Config, tuple: &[&str]) -> Labels {
    let mut l: Labels = cfg
        .names
        .iter()
        .zip(tuple)
        .map(|(n, v)| (n.to_string(), v.to_string()))
        .chain(cfg.consts.iter().map(|(k, v)| (k.to_string(), v.to_string())))
        .collect();
    l.sort();
    l
}

fn is_sorted_by_name(l: &Labels) -> bool {
    l.windows(2).all(|w| w[0].0 < w[1].0)
}

/// Reference model: map from tuple to (total, number of bumps).
type Model = BTreeMap<Vec<String>, (f64, u64)>;

fn compare(cfg: &Config, v: &V, model: &Model, ctx: &str) -> Option<(String, String)> {
    let got = match v.collect() {
        Ok(g) => g,
        Err(e) => return Some(("collect-shape".into(), e)),
    };
    let mut exp: Vec<(Labels, f64, u64)> = model
        .iter()
        .map(|(t, (tot, n))| {
            let tr: Vec<&str> = t.iter().map(|s| s.as_str()).collect();
            (expected_labels(cfg, &tr), *tot, *n)
        })
        .collect();
    exp.sort_by(|a, b| a.0.cmp(&b.0));
    if got.len() != exp.len() {
        return Some((
            "child-count".into(),
            format!("{}: {} children collected, {} distinct tuples requested", ctx, got.len(), exp.len()),
        ));
    }
    for (g, e) in got.iter().zip(&exp) {
        if g.0 != e.0 {
            return Some(("child-labels".into(), format!("{}: child labels {:?}, expected {:?}", ctx, g.0, e.0)));
        }
        if !is_sorted_by_name(&g.0) {
            return Some(("duplicate-or-unsorted-label-names".into(), format!("{}: {:?}", ctx, g.0)));
        }
        if g.1 != e.1 {
            return Some((
                "child-value".into(),
                format!("{}: child {:?} has value {}, expected {}", ctx, g.0, g.1, e.1),
            ));
        }
        if matches!(v, V::H(..) | V::LH(..)) && g.2 != e.2 {
            return Some(("child-count-field".into(), format!("{}: child {:?} has count {}, expected {}", ctx, g.0, g.2, e.2)));
        }
    }
    None
}

fn mk_map<'a>(names: &[&'a str], tuple: &[&'a str], order: &[usize]) -> HashMap<&'a str, &'a str> {
    let mut m = HashMap::new();
    for &i in order {
        m.insert(names[i], tuple[i]);
    }
    m
}

/// Scenario 1: every tuple of POOL^arity lives in one vector.
fn all_in_one(cfg: &Config, pool: &[&'static str], calls: &mut u64) -> Option<(String, String)> {
    let arity = cfg.names.len();
    ARITY.with(|a| a.set(arity));
    let mut v = match V::new(cfg) {
        Ok(v) => v,
        Err(e) => return Some(("constructor".into(), e)),
    };
    let mut model: Model = BTreeMap::new();
    let perms = combi::permutations(arity);
    let mut amt = 0u32;
    let tuples: Vec<Vec<&'static str>> = combi::sequences(pool.len(), arity).map(|ix| ix.iter().map(|&i| pool[i]).collect()).collect();
    // pass 1: list form
    for t in &tuples {
        amt += 1;
        *calls += 1;
        let key: Vec<String> = t.iter().map(|s| s.to_string()).collect();
        match v.bump_list(t, amt) {
            Ok(before) => {
                let exp_before = if v.is_local() { 0.0 } else { model.get(&key).map(|x| x.0).unwrap_or(0.0) };
                if before != exp_before {
                    let class = if model.contains_key(&key) { "stale-child" } else { "fresh-child-not-zero" };
                    return Some((class.into(), format!("tuple {:?} (list form): value before update {}, expected {}", t, before, exp_before)));
                }
            }
            Err(e) => return Some(("valid-request-refused".into(), format!("tuple {:?} (list form): {}", t, e))),
        }
        let ent = model.entry(key).or_insert((0.0, 0));
        ent.0 += amt as f64;
        ent.1 += 1;
    }
    v.flush();
    if let Some(r) = compare(cfg, &v, &model, "after list-form pass") {
        return Some(r);
    }
    // pass 2: map form in every key insertion order
    for (ti, t) in tuples.iter().enumerate() {
        let p = &perms[ti % perms.len()];
        for p in std::iter::once(p).chain(if ti < 64 { perms.iter() } else { [].iter() }) {
            amt += 1;
            *calls += 1;
            let key: Vec<String> = t.iter().map(|s| s.to_string()).collect();
            let m = mk_map(&cfg.names, t, p);
            match v.bump_map(&m, amt) {
                Ok(before) => {
                    let exp_before = model.get(&key).map(|x| x.0).unwrap_or(0.0);
                    if before != exp_before {
                        return Some(("map-form-other-child".into(), format!("tuple {:?} (map form): value before update {}, expected {}", t, before, exp_before)));
                    }
                }
                Err(e) => return Some(("valid-request-refused".into(), format!("tuple {:?} (map form): {}", t, e))),
            }
            let ent = model.entry(key).or_insert((0.0, 0));
            ent.0 += amt as f64;
            ent.1 += 1;
        }
    }
    if let Some(r) = compare(cfg, &v, &model, "after map-form pass") {
        return Some(r);
    }
    // pass 3: invalid requests create nothing
    let bad_lists: Vec<Vec<&str>> = {
        let mut b: Vec<Vec<&str>> = vec![];
        for t in tuples.iter().take(40) {
            b.push(t[..arity - 1].to_vec());
            let mut l = t.clone();
            l.push("");
            b.push(l.clone());
            l.push("a");
            b.push(l);
        }
        b.push(vec![]);
        b
    };
    for bl in &bad_lists {
        *calls += 2;
        if let Ok(_) = v.bump_list(bl, 1) {
            return Some(("wrong-arity-accepted".into(), format!("list {:?} accepted by a vector with {} labels", bl, arity)));
        }
        if !v.is_local() || bl.len() == arity {
            if let Ok(_) = v.remove_list(bl) {
                return Some(("wrong-arity-remove-accepted".into(), format!("remove {:?}", bl)));
            }
        }
    }
    for t in tuples.iter().take(40) {
        // missing key, wrong key, extra key
        let mut m1 = mk_map(&cfg.names, t, &perms[0]);
        m1.remove(cfg.names[0]);
        let mut m2 = m1.clone();
        m2.insert("nosuchlabel", t[0]);
        let mut m3 = mk_map(&cfg.names, t, &perms[0]);
        m3.insert("nosuchlabel", "x");
        // a const label name is not a variable label
        let mut m4 = m1.clone();
        if let Some((k, _)) = cfg.consts.first() {
            m4.insert(k, t[0]);
        } else {
            m4.insert("", t[0]);
        }
        for (mi, m) in [m1, m2, m3, m4].iter().enumerate() {
            *calls += 2;
            if let Ok(_) = v.bump_map(m, 1) {
                return Some(("bad-map-accepted".into(), format!("map #{} {:?} accepted (names {:?})", mi, m, cfg.names)));
            }
            if let Ok(_) = v.remove_map(m) {
                return Some(("bad-map-remove-accepted".into(), format!("map #{} {:?}", mi, m)));
            }
        }
    }
    if let Some((c, d)) = compare(cfg, &v, &model, "after invalid requests") {
        return Some((format!("invalid-request-left-trace:{}", c), d));
    }
    // pass 4: removal addresses exactly the requested child
    for (ti, t) in tuples.iter().enumerate() {
        *calls += 1;
        let key: Vec<String> = t.iter().map(|s| s.to_string()).collect();
        let r = if ti % 2 == 0 {
            v.remove_list(t)
        } else {
            v.remove_map(&mk_map(&cfg.names, t, &perms[ti % perms.len()]))
        };
        if let Err(e) = r {
            return Some(("remove-existing-refused".into(), format!("remove {:?}: {}", t, e)));
        }
        model.remove(&key);
        if ti % 97 == 0 || ti + 3 >= tuples.len() {
            if let Some((c, d)) = compare(cfg, &v, &model, &format!("after removing {:?}", t)) {
                return Some((format!("remove:{}", c), d));
            }
        }
        if ti % 7 == 0 {
            *calls += 1;
            if v.remove_list(t).is_ok() {
                return Some(("remove-twice-accepted".into(), format!("{:?}", t)));
            }
        }
    }
    None
}

/// Scenario 3 (local kinds): the child is removed behind the local vector's back, the local vector's own
/// removal then fails, and the tuple is requested again: it must address the child the shared vector now holds.
fn local_reattach(cfg: &Config, pool: &[&'static str], calls: &mut u64) -> Option<(String, String)> {
    let arity = cfg.names.len();
    ARITY.with(|a| a.set(arity));
    let tuples: Vec<Vec<&'static str>> = combi::sequences(pool.len(), arity).map(|ix| ix.iter().map(|&i| pool[i]).collect()).collect();
    for t in tuples.iter().take(60) {
        let mut v = match V::new(cfg) {
            Ok(v) => v,
            Err(e) => return Some(("constructor".into(), e)),
        };
        if !v.is_local() {
            return None;
        }
        *calls += 6;
        if v.bump_list(t, 1).is_err() {
            return Some(("valid-request-refused".into(), format!("{:?}", t)));
        }
        match v.shared_remove_list(t) {
            Some(Ok(())) => {}
            other => return Some(("remove-existing-refused".into(), format!("shared remove of {:?}: {:?}", t, other))),
        }
        if v.remove_list(t).is_ok() {
            return Some(("remove-twice-accepted".into(), format!("local remove of {:?} after the shared vector removed it", t)));
        }
        if v.bump_list(t, 2).is_err() {
            return Some(("valid-request-refused".into(), format!("{:?} after removal", t)));
        }
        v.flush();
        let mut model: Model = BTreeMap::new();
        model.insert(t.iter().map(|s| s.to_string()).collect(), (2.0, 1));
        if let Some((c, d)) = compare(cfg, &v, &model, &format!("local vector: {:?} updated, removed through the shared vector, local remove failed, updated again", t)) {
            return Some((format!("local-reattach:{}", c), d));
        }
    }
    None
}

/// Scenario 2: every ordered pair of tuples in a fresh vector.
fn pairwise(cfg: &Config, pool: &[&'static str], calls: &mut u64, rep: &mut Report) -> Option<(String, String)> {
    let arity = cfg.names.len();
    ARITY.with(|a| a.set(arity));
    let tuples: Vec<Vec<&'static str>> = combi::sequences(pool.len(), arity).map(|ix| ix.iter().map(|&i| pool[i]).collect()).collect();
    let perms = combi::permutations(arity);
    for (i, t1) in tuples.iter().enumerate() {
        for (j, t2) in tuples.iter().enumerate() {
            let mut v = match V::new(cfg) {
                Ok(v) => v,
                Err(e) => return Some(("constructor".into(), e)),
            };
            *calls += 4;
            rep.evaluations += 1;
            let r1 = v.bump_list(t1, 1);
            let r2 = if (i + j) % 2 == 0 || v.is_local() {
                v.bump_list(t2, 2)
            } else {
                v.bump_map(&mk_map(&cfg.names, t2, &perms[(i + j) % perms.len()]), 2)
            };
            if r1.is_err() || r2.is_err() {
                return Some(("valid-request-refused".into(), format!("{:?} then {:?}: {:?} {:?}", t1, t2, r1, r2)));
            }
            v.flush();
            let mut model: Model = BTreeMap::new();
            model.entry(t1.iter().map(|s| s.to_string()).collect()).or_insert((0.0, 0)).0 += 1.0;
            model.entry(t2.iter().map(|s| s.to_string()).collect()).or_insert((0.0, 0)).0 += 2.0;
            for e in model.values_mut() {
                e.1 = if e.0 == 3.0 { 2 } else { 1 };
            }
            if let Some((c, d)) = compare(cfg, &v, &model, &format!("fresh vector, {:?} then {:?}", t1, t2)) {
                return Some((format!("pair:{}", c), d));
            }
        }
    }
    None
}

/// One text cut into `arity` consecutive pieces at every possible position (pieces of 0..=33 bytes, so every piece
/// length and every boundary offset up to four machine words occurs): all these tuples are different and must be
/// different children of one vector.
const SHIFT_TEXT: &str = "frontendus-east-1a-zone1-rack0042";
/// 131 bytes: two boundaries can both fall on multiples of 64
const SHIFT_TEXT_LONG: &str = "frontendus-east-1a-zone1-rack0042/service=checkout/instance=10.20.30.40:9100/job=node_exporter_textfile/tenant=blue-green-canary-0007";

fn boundary_shift(cfg: &Config, calls: &mut u64) -> Option<(String, String)> {
    let arity = cfg.names.len();
    ARITY.with(|a| a.set(arity));
    let n = SHIFT_TEXT.len();
    let mut tuples: Vec<Vec<&'static str>> = vec![];
    match arity {
        1 => return None,
        2 => {
            for i in 0..=n {
                tuples.push(vec![&SHIFT_TEXT[..i], &SHIFT_TEXT[i..]]);
            }
            for i in 0..=SHIFT_TEXT_LONG.len() {
                tuples.push(vec![&SHIFT_TEXT_LONG[..i], &SHIFT_TEXT_LONG[i..]]);
            }
        }
        _ => {
            for i in 0..=n {
                for j in i..=n {
                    tuples.push(vec![&SHIFT_TEXT[..i], &SHIFT_TEXT[i..j], &SHIFT_TEXT[j..]]);
                }
            }
            // the long text: cuts at and next to the multiples of 8 and 64
            let l = SHIFT_TEXT_LONG.len();
            let near: Vec<usize> = (0..=l).filter(|i| i % 8 == 0 || i % 64 == 1 || i % 64 == 63 || *i == l).collect();
            for &i in &near {
                for &j in near.iter().filter(|j| **j >= i) {
                    tuples.push(vec![&SHIFT_TEXT_LONG[..i], &SHIFT_TEXT_LONG[i..j], &SHIFT_TEXT_LONG[j..]]);
                }
            }
        }
    }
    let mut v = match V::new(cfg) {
        Ok(v) => v,
        Err(e) => return Some(("constructor".into(), e)),
    };
    let perms = combi::permutations(arity);
    let mut model: Model = BTreeMap::new();
    for (k, t) in tuples.iter().enumerate() {
        *calls += 1;
        let r = if k % 2 == 0 || v.is_local() { v.bump_list(t, 1) } else { v.bump_map(&mk_map(&cfg.names, t, &perms[k % perms.len()]), 1) };
        match r {
            Ok(before) if before == 0.0 => {}
            Ok(before) => return Some(("shifted-boundary:stale-child".into(), format!("tuple {:?}: first request found a child holding {}", t, before))),
            Err(e) => return Some(("valid-request-refused".into(), format!("tuple {:?}: {}", t, e))),
        }
        model.insert(t.iter().map(|s| s.to_string()).collect(), (1.0, 1));
    }
    v.flush();
    compare(cfg, &v, &model, "one text cut at every position").map(|(c, d)| (format!("shifted-boundary:{}", c), d))
}

fn configs(arity: usize) -> Vec<(Vec<&'static str>, Vec<(&'static str, &'static str)>)> {
    match arity {
        1 => vec![(vec!["l"], vec![]), (vec!["l"], vec![("k", "c")])],
        2 => vec![
            (vec!["l1", "l2"], vec![]),
            (vec!["l2", "l1"], vec![("l15", "c")]),
        ],
        _ => vec![(vec!["a", "b", "c"], vec![]), (vec!["c", "a", "b"], vec![("bb", "x"), ("z", "")])],
    }
}

fn cfg_json(cfg: &Config) -> Value {
    json!({"kind": format!("{:?}", cfg.kind), "names": cfg.names, "consts": cfg.consts})
}

fn main() {
    let args = parse_args();
    quiet_panics();
    let mut rep = Report::new("C05", &args);
    let thorough = args.tier == Tier::Thorough;
    // quick: the first 11 pool values for arity 3, full pool for arity <= 2
    let pool_for = |arity: usize, pair: bool| -> Vec<&'static str> {
        match (arity, pair, thorough) {
            (3, false, false) => POOL[..11].to_vec(),
            (3, true, _) => POOL[..6].to_vec(),
            (2, true, false) => POOL[..11].to_vec(),
            _ => POOL.to_vec(),
        }
    };
    if let Some(p) = &args.replay {
        let doc = read_replay(p);
        let kind = KINDS.iter().find(|k| format!("{:?}", k) == doc["config"]["kind"].as_str().unwrap()).cloned().unwrap();
        let arity = doc["config"]["names"].as_array().unwrap().len();
        let (names, consts) = configs(arity).into_iter().find(|(n, _)| json!(n) == doc["config"]["names"]).unwrap();
        let cfg = Config { kind, names, consts };
        if doc["scenario"] == "boundary-shift" {
            let mut calls = 0;
            let r1 = catch(|| boundary_shift(&cfg, &mut calls));
            let r2 = catch(|| boundary_shift(&cfg, &mut calls));
            println!("replay {:?} scenario=boundary-shift -> {:?}", cfg, r1);
            if format!("{:?}", r1) != format!("{:?}", r2) {
                std::process::exit(2);
            }
            if matches!(r1, Ok(None)) {
                std::process::exit(0);
            }
            println!("VIOLATION property=C05 replay={}", p);
            std::process::exit(1);
        }
        let pair = doc["scenario"] == "pairwise";
        let pool: Vec<&'static str> = doc["pool"].as_array().unwrap().iter().map(|s| *POOL.iter().find(|p| **p == s.as_str().unwrap()).unwrap()).collect();
        let mut calls = 0;
        let mut dummy = Report::new("C05", &args);
        let mut run = || catch(|| if pair { pairwise(&cfg, &pool, &mut calls, &mut dummy) } else { all_in_one(&cfg, &pool, &mut calls) });
        let r1 = run();
        let r2 = run();
        println!("replay {:?} scenario={} -> {:?}", cfg, doc["scenario"], r1);
        if format!("{:?}", r1) != format!("{:?}", r2) {
            eprintln!("replay diverged");
            std::process::exit(2);
        }
        if matches!(r1, Ok(None)) {
            std::process::exit(0);
        }
        println!("VIOLATION property=C05 replay={}", p);
        std::process::exit(1);
    }
    rep.rule = format!(
        "for each of 8 vector kinds x label-name configurations (arity 1..3, sorted and unsorted declaration order, with/without constant labels): (1) all tuples of POOL^arity requested in one vector by list form and by map form (every key insertion order), distinct increments, wrong-arity / wrong-key requests, removal by both forms; (2) every ordered pair of tuples in a fresh vector; (3) local kinds: child removed through the shared vector, local removal fails, tuple requested again; (4) a 33-byte and a 131-byte text cut into arity consecutive pieces at every position (arity 3, long text: at and next to the multiples of 8 and 64), all in one vector. POOL={:?} (quick uses the first 11 values for arity 3 and for arity-2 pairs; pairs of arity 3 use the first 6). distinct = distinct (kind, config, scenario, children) outcome classes",
        POOL
    );
    rep.bounds = json!({"pool_size": POOL.len(), "arities": [1,2,3], "kinds": KINDS.iter().map(|k| format!("{:?}", k)).collect::<Vec<_>>()});
    for arity in 1..=3 {
        for (names, consts) in configs(arity) {
            for &kind in &KINDS {
                let cfg = Config { kind, names: names.clone(), consts: consts.clone() };
                {
                    let pool = pool_for(arity, true);
                    let mut calls = 0u64;
                    rep.evaluations += 1;
                    let r = watchdog::case(|| format!("local-reattach {:?}", cfg), || catch(|| local_reattach(&cfg, &pool, &mut calls)));
                    rep.transitions += calls;
                    match r {
                        Ok(None) => {}
                        Ok(Some((class, detail))) => {
                            rep.violation(format!("{}:{:?}:arity{}", class, kind, arity), format!("{:?} names {:?}: {}", kind, names, detail), json!({"engine":"enum","config": cfg_json(&cfg), "scenario": "local-reattach", "pool": pool, "detail": detail}));
                        }
                        Err(p) => rep.violation(format!("panic:{:?}", kind), p.clone(), json!({"detail": p})),
                    }
                }
                {
                    let mut calls = 0u64;
                    rep.evaluations += 1;
                    let r = watchdog::case(|| format!("boundary-shift {:?}", cfg), || catch(|| boundary_shift(&cfg, &mut calls)));
                    rep.transitions += calls;
                    match r {
                        Ok(None) => {}
                        Ok(Some((class, detail))) => {
                            rep.violation(format!("{}:{:?}:arity{}", class, kind, arity), format!("{:?} names {:?}: {}", kind, names, detail), json!({"engine":"enum","config": cfg_json(&cfg), "scenario": "boundary-shift", "pool": [], "detail": detail}));
                        }
                        Err(p) => rep.violation(format!("panic:{:?}", kind), p.clone(), json!({"detail": p})),
                    }
                }
                for pair in [false, true] {
                    if pair && arity == 3 && !thorough {
                        continue;
                    }
                    let pool = pool_for(arity, pair);
                    let mut calls = 0u64;
                    let evals_before = rep.evaluations;
                    let r = if pair {
                        let mut sub = Report::new("C05", &args);
                        let r = watchdog::case(|| format!("pairwise {:?}", cfg), || catch(|| pairwise(&cfg, &pool, &mut calls, &mut sub)));
                        rep.evaluations += sub.evaluations;
                        r
                    } else {
                        rep.evaluations += pool.len().pow(arity as u32) as u64;
                        watchdog::case(|| format!("all-in-one {:?}", cfg), || catch(|| all_in_one(&cfg, &pool, &mut calls)))
                    };
                    rep.transitions += calls;
                    let scenario = if pair { "pairwise" } else { "all-in-one" };
                    let r = match r {
                        Ok(r) => r,
                        Err(p) => Some(("panic".into(), format!("panicked: {}", p))),
                    };
                    match r {
                        None => {
                            rep.outcome(format!("ok|{:?}|{:?}|{:?}|{}|{}", kind, names, consts, scenario, rep.evaluations - evals_before));
                            rep.sample(json!({"config": cfg_json(&cfg), "scenario": scenario, "tuples": pool.len().pow(arity as u32), "result": "ok"}));
                        }
                        Some((class, detail)) => {
                            let sig = format!("{}:{:?}:arity{}", class, kind, arity);
                            rep.outcome(format!("VIOL|{}", sig));
                            rep.violation(
                                sig,
                                format!("{:?} names {:?} consts {:?} ({}): {}", kind, names, consts, scenario, detail),
                                json!({"engine":"enum","config": cfg_json(&cfg), "scenario": scenario, "pool": pool, "detail": detail}),
                            );
                        }
                    }
                }
            }
        }
    }
    rep.states = rep.evaluations;
    rep.traces = rep.evaluations;
    rep.assumptions = vec![
        "true 64-bit FNV collisions between different tuples are out of reach of any bounded pool (children are keyed by the hash alone)".into(),
        "label values outside the pool are not covered".into(),
    ];
    std::process::exit(rep.finish());
}
