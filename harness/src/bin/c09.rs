//! C09 — only well-formed, pairwise distinct names reach an exposed sample.
//! Bounded-exhaustive enumeration (E3) of strings in every name position of
//! every constructor, of label-name clashes, and of registry prefix / common
//! label settings, against a byte-wise regex-equivalent predicate; every
//! accepted metric is registered, given a sample and gathered, and the
//! gathered names are validated.

use prometheus::Registry;
use serde_json::json;
use std::collections::HashMap;
use verif_harness::*;

use verif_harness::ctors::*;

/// The acceptance predicate of the statement.
fn reference_accepts(c: Ctor, spec: &Spec) -> bool {
    if spec.help.is_empty() || !valid_metric_name(&fq(spec)) {
        return false;
    }
    let mut names: Vec<&str> = spec.consts.iter().map(|(k, _)| k.as_str()).collect();
    names.extend(spec.vars.iter().map(|s| s.as_str()));
    if names.iter().any(|n| !valid_label_name(n)) {
        return false;
    }
    let mut sorted = names.clone();
    sorted.sort();
    if sorted.windows(2).any(|w| w[0] == w[1]) {
        return false;
    }
    if c.is_hist() && names.contains(&"le") {
        return false;
    }
    true
}

/// Names of everything gathered must be valid and pairwise distinct per sample.
fn check_gathered(mfs: &[prometheus::proto::MetricFamily]) -> Option<String> {
    for mf in mfs {
        if !valid_metric_name(mf.name()) {
            return Some(format!("gathered family name {:?} is not a valid metric name", mf.name()));
        }
        for m in mf.get_metric() {
            let mut seen: Vec<&str> = vec![];
            for lp in m.get_label() {
                if !valid_label_name(lp.name()) {
                    return Some(format!("gathered sample of {:?} has invalid label name {:?}", mf.name(), lp.name()));
                }
                if seen.contains(&lp.name()) {
                    return Some(format!("gathered sample of {:?} carries label name {:?} twice", mf.name(), lp.name()));
                }
                seen.push(lp.name());
            }
        }
    }
    None
}

fn dup_consts(spec: &Spec) -> bool {
    // the same constant label name listed twice collapses in the options map; not a clash
    let mut k: Vec<&String> = spec.consts.iter().map(|(k, _)| k).collect();
    k.sort();
    k.windows(2).any(|w| w[0] == w[1])
}

/// One constructor case. Returns (class, detail) on a disagreement.
fn ctor_case(c: Ctor, spec: &Spec, calls: &mut u64) -> Option<(String, String)> {
    *calls += 1;
    let exp = reference_accepts(c, spec);
    match build(c, spec) {
        Ok(col) => {
            if !exp {
                return Some((classify_reject(c, spec), format!("{:?} accepted {:?}", c, spec)));
            }
            *calls += 2;
            let r = Registry::new();
            if let Err(e) = r.register(col) {
                return Some(("valid-metric-not-registrable".into(), format!("{:?} {:?}: {}", c, spec, e)));
            }
            let mfs = r.gather();
            if c != Ctor::Desc && mfs.is_empty() {
                return Some(("no-sample-gathered".into(), format!("{:?} {:?}", c, spec)));
            }
            if let Some(d) = check_gathered(&mfs) {
                return Some(("invalid-name-gathered".into(), format!("{:?} {:?}: {}", c, spec, d)));
            }
            if let Some(mf) = mfs.first() {
                if mf.name() != fq(spec) {
                    return Some(("fq-name".into(), format!("{:?} {:?}: gathered name {:?}, expected {:?}", c, spec, mf.name(), fq(spec))));
                }
            }
            None
        }
        Err(e) => {
            if exp {
                return Some(("rejects-valid".into(), format!("{:?} rejected {:?}: {}", c, spec, e)));
            }
            if e.starts_with("CHILD:") {
                // the vector constructor accepted; only the creation of a child failed
                return Some((classify_reject(c, spec) + ":only-child-creation-fails", format!("{:?}::new accepted {:?}; first child request failed: {}", c, spec, &e[6..])));
            }
            None
        }
    }
}

fn classify_reject(c: Ctor, spec: &Spec) -> String {
    let mut names: Vec<&str> = spec.consts.iter().map(|(k, _)| k.as_str()).collect();
    names.extend(spec.vars.iter().map(|s| s.as_str()));
    if spec.help.is_empty() {
        return "empty-help-accepted".into();
    }
    if !valid_metric_name(&fq(spec)) {
        return "invalid-metric-name-accepted".into();
    }
    if names.iter().any(|n| !valid_label_name(n)) {
        return "invalid-label-name-accepted".into();
    }
    let cv = spec.consts.iter().any(|(k, _)| spec.vars.contains(k));
    let vv = {
        let mut v = spec.vars.clone();
        v.sort();
        v.windows(2).any(|w| w[0] == w[1])
    };
    if cv {
        return "const-and-variable-label-same-name-accepted".into();
    }
    if vv {
        return "variable-label-twice-accepted".into();
    }
    if c.is_hist() && names.contains(&"le") {
        return format!("le-label-accepted:{:?}", c);
    }
    "accepted-invalid".into()
}

fn sp(name: &str) -> Spec {
    Spec { name: name.into(), help: "h".into(), ..Default::default() }
}

struct Run<'a> {
    rep: &'a mut Report,
}

impl Run<'_> {
    fn ctor(&mut self, c: Ctor, spec: &Spec, group: &str) {
        let mut calls = 0;
        self.rep.evaluations += 1;
        let r = watchdog::case(|| format!("{:?} {:?}", c, spec), || catch(|| ctor_case(c, spec, &mut calls)));
        self.rep.transitions += calls;
        let r = match r {
            Ok(r) => r,
            Err(p) => Some(("panic".into(), format!("{:?} {:?} panicked: {}", c, spec, p))),
        };
        match r {
            None => {
                self.rep.outcome(format!("{}|{:?}|{}", group, c, reference_accepts(c, spec)));
                if self.rep.evaluations % 40009 == 7 {
                    self.rep.sample(json!({"ctor": format!("{:?}", c), "spec": format!("{:?}", spec), "accepted": reference_accepts(c, spec)}));
                }
            }
            Some((class, detail)) => {
                let sig = format!("{}:{}", class, if class.contains(':') { String::new() } else { format!("{:?}", c) });
                self.rep.outcome(format!("VIOL|{}", sig));
                self.rep.violation(
                    sig,
                    detail.clone(),
                    json!({"engine":"enum","part":"ctor","ctor": format!("{:?}", c), "spec": {"ns": spec.ns, "sub": spec.sub, "name": spec.name, "help": spec.help, "consts": spec.consts, "vars": spec.vars}, "detail": detail}),
                );
            }
        }
    }

    /// Registry-level part: prefix / common labels, then a metric, then gather.
    fn registry(&mut self, prefix: Option<&str>, labels: &[(&str, &str)], c: Ctor, spec: &Spec, group: &str) {
        self.rep.evaluations += 1;
        let r = watchdog::case(|| format!("registry prefix={:?} labels={:?} {:?} {:?}", prefix, labels, c, spec), || catch(|| {
            let lm: Option<HashMap<String, String>> = if labels.is_empty() {
                None
            } else {
                Some(labels.iter().map(|(k, v)| (k.to_string(), v.to_string())).collect())
            };
            let reg = match Registry::new_custom(prefix.map(|s| s.to_string()), lm) {
                Ok(r) => r,
                Err(_) => return (None, "new_custom-err"),
            };
            let col = match build(c, spec) {
                Ok(c) => c,
                Err(e) => return (Some(("harness".to_string(), format!("metric spec not constructible: {}", e))), "x"),
            };
            if reg.register(col).is_err() {
                return (None, "register-err");
            }
            let mfs = reg.gather();
            if mfs.is_empty() {
                return (Some(("no-sample-gathered".to_string(), "registered metric has no sample".to_string())), "x");
            }
            (check_gathered(&mfs).map(|d| ("invalid-name-gathered".to_string(), d)), "gathered")
        }));
        self.rep.transitions += 4;
        let (r, how) = match r {
            Ok(x) => x,
            Err(p) => (Some(("panic".to_string(), format!("panicked: {}", p))), "panic"),
        };
        match r {
            None => {
                let pv = prefix.map(|p| valid_metric_name(&format!("{}_m", p)));
                let lv = labels.iter().all(|(k, _)| valid_label_name(k));
                self.rep.outcome(format!("{}|{:?}|{}|{}", group, pv, lv, how));
            }
            Some((class, detail)) => {
                let sig = format!("{}:{}", class, group);
                self.rep.outcome(format!("VIOL|{}", sig));
                let what = format!("Registry::new_custom(prefix={:?}, labels={:?}) + {:?} {:?}: {}", prefix, labels, c, spec, detail);
                self.rep.violation(
                    sig,
                    what,
                    json!({"engine":"enum","part":"registry","prefix": prefix, "labels": labels, "ctor": format!("{:?}", c), "spec": {"ns": spec.ns, "sub": spec.sub, "name": spec.name, "help": spec.help, "consts": spec.consts, "vars": spec.vars}, "detail": detail}),
                );
            }
        }
    }
}

/// `k` collectors named m, told apart by the constant label `shard`, each holding one sample, in one registry.
fn siblings_case(prefix: Option<&str>, labels: &[(&str, &str)], k: usize, vec_kind: bool) -> Result<(), String> {
    let lm: Option<HashMap<String, String>> = if labels.is_empty() { None } else { Some(labels.iter().map(|(k, v)| (k.to_string(), v.to_string())).collect()) };
    let reg = Registry::new_custom(prefix.map(|s| s.to_string()), lm).map_err(|e| format!("new_custom: {}", e))?;
    for i in 0..k {
        let opts = prometheus::Opts::new("m", "h").const_label("shard", format!("s{}", i));
        if vec_kind {
            let v = prometheus::CounterVec::new(opts, &["zone"]).map_err(|e| e.to_string())?;
            v.with_label_values(&["z"]).inc();
            reg.register(Box::new(v)).map_err(|e| format!("register sibling {}: {}", i, e))?;
        } else {
            let c = prometheus::Counter::with_opts(opts).map_err(|e| e.to_string())?;
            c.inc();
            reg.register(Box::new(c)).map_err(|e| format!("register sibling {}: {}", i, e))?;
        }
    }
    let mfs = reg.gather();
    let n: usize = mfs.iter().map(|mf| mf.get_metric().len()).sum();
    if n != k {
        return Err(format!("{} samples gathered from {} collectors", n, k));
    }
    // gathered twice: nothing accumulates from one gather to the next
    let again = reg.gather();
    if let Some(d) = check_gathered(&mfs).or_else(|| check_gathered(&again)) {
        return Err(d);
    }
    Ok(())
}

fn spec_from_json(v: &serde_json::Value) -> Spec {
    let s = |k: &str| v[k].as_str().unwrap_or("").to_string();
    Spec {
        ns: s("ns"),
        sub: s("sub"),
        name: s("name"),
        help: s("help"),
        consts: v["consts"].as_array().map(|a| a.iter().map(|p| (p[0].as_str().unwrap().to_string(), p[1].as_str().unwrap().to_string())).collect()).unwrap_or_default(),
        vars: v["vars"].as_array().map(|a| a.iter().map(|p| p.as_str().unwrap().to_string()).collect()).unwrap_or_default(),
    }
}

fn main() {
    let args = parse_args();
    quiet_panics();
    let mut rep = Report::new("C09", &args);
    let thorough = args.tier == Tier::Thorough;
    if let Some(p) = &args.replay {
        let doc = read_replay(p);
        if doc["part"] == "siblings" {
            let labels: Vec<(String, String)> = doc["labels"].as_array().unwrap().iter().map(|p| (p[0].as_str().unwrap().to_string(), p[1].as_str().unwrap().to_string())).collect();
            let lr: Vec<(&str, &str)> = labels.iter().map(|(a, b)| (a.as_str(), b.as_str())).collect();
            let r = catch(|| siblings_case(doc["prefix"].as_str(), &lr, doc["k"].as_u64().unwrap() as usize, doc["vec"].as_bool().unwrap()));
            println!("replay: siblings -> {:?}", r);
            if matches!(r, Ok(Ok(()))) {
                std::process::exit(0);
            }
            println!("VIOLATION property=C09 replay={}", p);
            std::process::exit(1);
        }
        let c = CTORS.iter().find(|c| format!("{:?}", c) == doc["ctor"].as_str().unwrap()).cloned().unwrap();
        let spec = spec_from_json(&doc["spec"]);
        let mut sub = Report::new("C09", &args);
        {
            let mut run = Run { rep: &mut sub };
            if doc["part"] == "ctor" {
                run.ctor(c, &spec, "replay");
                run.ctor(c, &spec, "replay");
            } else {
                let labels: Vec<(String, String)> = doc["labels"].as_array().unwrap().iter().map(|p| (p[0].as_str().unwrap().to_string(), p[1].as_str().unwrap().to_string())).collect();
                let lr: Vec<(&str, &str)> = labels.iter().map(|(a, b)| (a.as_str(), b.as_str())).collect();
                run.registry(doc["prefix"].as_str(), &lr, c, &spec, "replay");
            }
        }
        for v in &sub.violations {
            println!("{}", v.what);
        }
        if sub.violations.is_empty() {
            println!("replay: no violation");
            std::process::exit(0);
        }
        println!("VIOLATION property=C09 replay={}", p);
        std::process::exit(1);
    }

    let s3 = strings(3);
    let s2 = strings(2);
    let s1 = strings(1);
    rep.rule = format!(
        "strings of length 0..=3 (thorough: 4 for three representative constructors) over the character pool {:?}: every string as metric name through 12 constructors; all (namespace|subsystem, name) pairs of strings of length<=2 (quick: namespace/subsystem length<=1); every string (len<=3) as constant and as variable label name; every assignment of <=2 constant and <=2 variable label names from {{a,b,le}} for all 12 constructors; help in {{\"\",h}}; Registry::new_custom with every string (len<=3) as prefix, every string (len<=2) as common-label name, and common labels from {{a,b,le}} against metrics using the same names; 2-3 collectors contributing to one family (same name, told apart by a constant label) in registries with 0-2 common labels, gathered twice. Every accepted metric is registered, sampled and gathered; gathered names are validated. distinct = distinct (part, constructor, accept/reject, outcome) classes",
        CHARS
    );
    rep.bounds = json!({"chars": CHARS.iter().map(|c| c.to_string()).collect::<Vec<_>>(), "name_len": 3, "pair_len": if thorough {2} else {1}, "label_names": ["a","b","le"]});
    let mut run = Run { rep: &mut rep };

    // (a) every string as the metric name
    for s in &s3 {
        for &c in &CTORS {
            let mut spec = sp(s);
            if c.is_vec() {
                spec.vars = vec!["l".into()];
            }
            run.ctor(c, &spec, "name");
        }
    }
    // thorough: strings of length 4 in the name and label-name positions of three representative constructors
    if thorough {
        for s in strings(4).iter().filter(|s| s.chars().count() == 4) {
            for &c in &[Ctor::Counter, Ctor::HistogramVec, Ctor::Desc] {
                let mut spec = sp(s);
                if c.is_vec() {
                    spec.vars = vec!["l".into()];
                }
                run.ctor(c, &spec, "name4");
                let mut spec = sp("m");
                spec.consts = vec![(s.clone(), "v".into())];
                if c.is_vec() {
                    spec.vars = vec!["l".into()];
                }
                run.ctor(c, &spec, "const-label4");
                if c != Ctor::Counter {
                    let mut spec = sp("m");
                    spec.vars = vec![s.clone()];
                    run.ctor(c, &spec, "var-label4");
                }
            }
        }
    }
    // help
    for &c in &CTORS {
        for help in ["", "h", " "] {
            let mut spec = sp("m");
            spec.help = help.into();
            if c.is_vec() {
                spec.vars = vec!["l".into()];
            }
            run.ctor(c, &spec, "help");
        }
    }
    // (b) namespace / subsystem joined with the name
    let outer = if thorough { &s2 } else { &s1 };
    for a in outer {
        for b in &s2 {
            for (which, c) in [(0, Ctor::Counter), (1, Ctor::GaugeVec), (2, Ctor::Histogram)] {
                let mut spec = sp(b);
                match which {
                    0 => spec.ns = a.clone(),
                    1 => {
                        spec.sub = a.clone();
                        spec.vars = vec!["l".into()];
                    }
                    _ => {
                        spec.ns = a.clone();
                        spec.sub = a.clone();
                    }
                }
                run.ctor(c, &spec, "fq");
            }
        }
    }
    // (c) every string as a constant / variable label name
    for s in &s3 {
        for &c in &CTORS {
            if c == Ctor::PullingGauge {
                continue;
            }
            let mut spec = sp("m");
            spec.consts = vec![(s.clone(), "v".into())];
            if c.is_vec() {
                spec.vars = vec!["l".into()];
            }
            run.ctor(c, &spec, "const-label");
            if c.is_vec() || c == Ctor::Desc {
                let mut spec = sp("m");
                spec.vars = vec![s.clone()];
                run.ctor(c, &spec, "var-label");
                let mut spec = sp("m");
                spec.vars = vec!["l".into(), s.clone()];
                spec.consts = vec![("k".into(), "v".into())];
                run.ctor(c, &spec, "var-label2");
            }
        }
    }
    // (d) clashes among {a, b, le}
    let names = ["a", "b", "le"];
    let mut lists: Vec<Vec<&str>> = vec![vec![]];
    for x in names {
        lists.push(vec![x]);
    }
    for x in names {
        for y in names {
            lists.push(vec![x, y]);
        }
    }
    for cl in &lists {
        for vl in &lists {
            for &c in &CTORS {
                if c == Ctor::PullingGauge {
                    continue;
                }
                if !vl.is_empty() && !(c.is_vec() || c == Ctor::Desc) {
                    continue;
                }
                if vl.is_empty() && c.is_vec() {
                    continue;
                }
                let mut spec = sp("m");
                spec.consts = cl.iter().map(|k| (k.to_string(), "v".to_string())).collect();
                if dup_consts(&spec) {
                    continue;
                }
                spec.vars = vl.iter().map(|s| s.to_string()).collect();
                run.ctor(c, &spec, "clash");
            }
        }
    }
    // variable-label lists of length 3 (non-adjacent repeats included)
    for a in names {
        for b in names {
            for c3 in names {
                for &c in &CTORS {
                    if !(c.is_vec() || c == Ctor::Desc) {
                        continue;
                    }
                    for cl in [None, Some("b")] {
                        let mut spec = sp("m");
                        spec.vars = vec![a.to_string(), b.to_string(), c3.to_string()];
                        spec.consts = cl.iter().map(|k| (k.to_string(), "v".to_string())).collect();
                        run.ctor(c, &spec, "clash3");
                    }
                }
            }
        }
    }
    // wide shapes: more than 8 labels in total, with a clash at every position
    let wide: Vec<String> = (0..9).map(|i| format!("w{}", i)).collect();
    for nconst in 0..=2usize {
        for nvar in [7usize, 8, 9] {
            for clash in 0..=nvar {
                for &c in &CTORS {
                    if !(c.is_vec() || c == Ctor::Desc) {
                        continue;
                    }
                    let mut spec = sp("m");
                    spec.consts = (0..nconst).map(|i| (format!("k{}", i), "v".to_string())).collect();
                    spec.vars = wide[..nvar].to_vec();
                    if clash < nvar {
                        // variable label `clash` repeats a constant label (or, without constants, another variable label)
                        spec.vars[clash] = if nconst > 0 { format!("k{}", clash % nconst) } else { wide[(clash + 3) % nvar].clone() };
                    }
                    run.ctor(c, &spec, "wide");
                }
            }
        }
    }
    // (e) registry prefix and common labels
    for s in &s3 {
        run.registry(Some(s), &[], Ctor::Counter, &sp("m"), "prefix");
    }
    for s in &s2 {
        run.registry(None, &[(s, "v")], Ctor::Counter, &sp("m"), "common-label-name");
        run.registry(Some("p"), &[(s, "v"), ("ok", "v")], Ctor::GaugeVec, &Spec { vars: vec!["l".into()], ..sp("m") }, "common-label-name");
    }
    for cl in &lists {
        for vl in &lists {
            for rl in &lists {
                if rl.is_empty() || (rl.len() == 2 && rl[0] == rl[1]) {
                    continue;
                }
                let c = if vl.is_empty() { Ctor::Counter } else { Ctor::CounterVec };
                let mut spec = sp("m");
                spec.consts = cl.iter().map(|k| (k.to_string(), "v".to_string())).collect();
                spec.vars = vl.iter().map(|s| s.to_string()).collect();
                if dup_consts(&spec) || !reference_accepts(c, &spec) {
                    continue;
                }
                let labels: Vec<(&str, &str)> = rl.iter().map(|k| (*k, "r")).collect();
                run.registry(None, &labels, c, &spec, "common-label-clash");
            }
        }
    }
    // (f) several collectors contributing to one family (same name, told apart by a constant label), 1..3 of them
    // holding a sample, in a registry with 0..2 common labels and with / without a prefix
    drop(run);
    for prefix in [None, Some("p")] {
        for rl in &lists {
            if rl.len() == 2 && rl[0] == rl[1] {
                continue;
            }
            for k in 2..=3usize {
                for vec_kind in [false, true] {
                    rep.evaluations += 1;
                    rep.transitions += (2 * k + 2) as u64;
                    let labels: Vec<(&str, &str)> = rl.iter().map(|k| (*k, "r")).collect();
                    let r = watchdog::case(|| format!("siblings prefix={:?} labels={:?} k={}", prefix, labels, k), || catch(|| siblings_case(prefix, &labels, k, vec_kind)));
                    let r = match r {
                        Ok(r) => r,
                        Err(p) => Err(format!("panicked: {}", p)),
                    };
                    match r {
                        Ok(()) => rep.outcome(format!("siblings|{:?}|{}|{}|{}", prefix, rl.len(), k, vec_kind)),
                        Err(d) if rl.contains(&"shard") || rl.contains(&"zone") => rep.outcome(format!("siblings-refused|{}", d.len().min(1))),
                        Err(d) => rep.violation(
                            format!("siblings:{}", if d.contains("twice") { "label-name-twice" } else { "other" }),
                            format!("registry(prefix={:?}, common labels {:?}) with {} {} named m told apart by a constant label: {}", prefix, labels, k, if vec_kind { "counter vectors" } else { "counters" }, d),
                            json!({"engine":"enum","part":"siblings","prefix": prefix, "labels": labels, "k": k, "vec": vec_kind, "detail": d}),
                        ),
                    }
                }
            }
        }
    }
    rep.states = rep.evaluations;
    rep.traces = rep.evaluations;
    rep.assumptions = vec![
        "characters outside the 12-character pool and names longer than 3 are not covered".into(),
        "a registry common label named `le` combined with a histogram is not judged (gather() itself returns distinct names; the extra `le` is added by the text encoder)".into(),
        "custom collectors whose collect() output disagrees with their descriptors are outside the statement".into(),
    ];
    std::process::exit(rep.finish());
}
