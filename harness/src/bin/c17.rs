//! C17 — fallible APIs report bad input as Err and do not panic.
//! Bounded-exhaustive argument sweep (E3) of every Result-returning public API;
//! each call runs under catch_unwind, built with debug assertions and overflow
//! checks on.

use prometheus::core::{Collector, Desc};
use prometheus::proto::MetricFamily;
use prometheus::{
    exponential_buckets, linear_buckets, CounterVec, Encoder, GaugeVec, Histogram, HistogramOpts, HistogramVec, IntCounterVec,
    IntGaugeVec, Opts, ProtobufEncoder, Registry, TextEncoder,
};
use serde_json::{json, Value};
use std::collections::HashMap;
use verif_harness::ctors::*;
use verif_harness::refmodel::*;
use verif_harness::*;

const F: [f64; 9] = [f64::NEG_INFINITY, -1.0, -0.0, 0.0, 5e-324, 1.0, 2.0, f64::INFINITY, f64::NAN];

struct Sweep<'a> {
    rep: &'a mut Report,
}

#[derive(PartialEq, Eq, Clone, Copy, Debug)]
enum Want {
    /// documented-invalid input: the call must return Err
    Err,
    /// valid input: the call must return Ok
    Ok,
    /// not specified: must merely return
    Any,
}

impl Sweep<'_> {
    /// Run one call; `f` returns Ok(())/Err(msg) mirroring the API result.
    fn call(&mut self, api: &str, class: &str, want: Want, input: Value, f: impl FnOnce() -> Result<(), String>) {
        self.rep.evaluations += 1;
        self.rep.transitions += 1;
        let r = watchdog::case(|| format!("{} [{}] input {}", api, class, input), || catch(f));
        let (verdict, detail) = match (&r, want) {
            (Err(p), _) => ("panic", format!("panicked: {}", p)),
            (Ok(Ok(())), Want::Err) => ("invalid-input-accepted", "returned Ok".to_string()),
            (Ok(Err(e)), Want::Ok) => ("valid-input-refused", format!("returned Err: {}", e)),
            _ => ("", String::new()),
        };
        if verdict.is_empty() {
            let res = match &r {
                Ok(Ok(())) => "ok",
                _ => "err",
            };
            self.rep.outcome(format!("{}|{}|{}", api, class, res));
            if self.rep.evaluations % 30011 == 3 {
                self.rep.sample(json!({"api": api, "class": class, "input": input, "result": res}));
            }
        } else {
            let sig = format!("{}:{}:{}", verdict, api, class);
            self.rep.outcome(format!("VIOL|{}", sig));
            self.rep.violation(sig, format!("{} on {} input {}: {}", api, class, input, detail), json!({"engine":"enum","api":api,"class":class,"input":input,"detail":detail}));
        }
    }
}

fn res<T>(r: prometheus::Result<T>) -> Result<(), String> {
    r.map(|_| ()).map_err(|e| e.to_string())
}

struct Multi(Vec<Desc>);
impl Collector for Multi {
    fn desc(&self) -> Vec<&Desc> {
        self.0.iter().collect()
    }
    fn collect(&self) -> Vec<MetricFamily> {
        vec![]
    }
}

fn d(name: &str, help: &str) -> Desc {
    Desc::new(name.into(), help.into(), vec![], HashMap::new()).unwrap()
}

struct FailAfter(usize);
impl std::io::Write for FailAfter {
    fn write(&mut self, buf: &[u8]) -> std::io::Result<usize> {
        if self.0 == 0 {
            return Err(std::io::Error::new(std::io::ErrorKind::Other, "full"));
        }
        let n = buf.len().min(self.0);
        self.0 -= n;
        Ok(n)
    }
    fn flush(&mut self) -> std::io::Result<()> {
        Ok(())
    }
}

fn mismatch_families() -> Vec<(String, MetricFamily)> {
    let types = [RType::Counter, RType::Gauge, RType::Summary, RType::Untyped, RType::Histogram];
    let mut out = vec![];
    for t in types {
        for p in types {
            let fams = gen_families(0, &[p]);
            // one representative payload of kind p, declared as type t
            let mut f = fams[0].clone();
            f.typ = t;
            out.push((format!("type={:?},payload={:?}", t, p), f.to_proto()));
        }
        // no payload at all
        let f = RFamily { name: "m".into(), help: "h".into(), typ: t, metrics: vec![RMetric::default()] };
        out.push((format!("type={:?},payload=none", t), f.to_proto()));
        // all payloads at once
        let mut m = RMetric::default();
        m.counter = Some(1.0);
        m.gauge = Some(2.0);
        m.untyped = Some(3.0);
        m.histogram = Some((1, 1.0, vec![(1.0, 1)]));
        m.summary = Some((1, 1.0, vec![(0.5, 1.0)]));
        let f = RFamily { name: "m".into(), help: "h".into(), typ: t, metrics: vec![m] };
        out.push((format!("type={:?},payload=all", t), f.to_proto()));
    }
    // unknown enum value, missing type, missing optional scalars
    let mut f = RFamily { name: "m".into(), help: "h".into(), typ: RType::Counter, metrics: vec![RMetric { counter: Some(1.0), ..Default::default() }] }.to_proto();
    f.type_ = Some(protobuf::EnumOrUnknown::from_i32(17));
    out.push(("type=unknown-enum-17".into(), f.clone()));
    f.type_ = None;
    out.push(("type=absent".into(), f.clone()));
    let mut g = f.clone();
    g.help = None;
    g.metric[0].counter.as_mut().unwrap().value = None;
    g.metric[0].label.push(Default::default());
    out.push(("absent-optionals".into(), g));
    let mut h = RFamily { name: "m".into(), help: "h".into(), typ: RType::Histogram, metrics: vec![RMetric { histogram: Some((1, 1.0, vec![(1.0, 1)])), ..Default::default() }] }.to_proto();
    {
        let hh = h.metric[0].histogram.as_mut().unwrap();
        hh.sample_count = None;
        hh.sample_sum = None;
        hh.bucket[0].upper_bound = None;
        hh.bucket[0].cumulative_count = None;
    }
    out.push(("histogram-absent-optionals".into(), h));
    out
}

fn main() {
    let args = parse_args();
    quiet_panics();
    let thorough = args.tier == Tier::Thorough;
    let mut rep = Report::new("C17", &args);
    if args.replay.is_some() {
        // Replays of this check are re-runs of the sweep filtered by signature.
        let doc = read_replay(args.replay.as_ref().unwrap());
        println!("replay: api={} class={} input={}", doc["api"], doc["class"], doc["input"]);
        println!("(re-running the sweep; the violation reappears below if it persists)");
    }
    rep.rule = "every Result-returning public API called under catch_unwind over: 12 constructors x {names, help, constant/variable label names} from the C09 string pool (len<=2) and label lists of length 0..3 over {a,b,le,'',9}; vector access/removal with label lists of length 0..4 and maps of 0..3 keys (right, wrong, missing, extra) on vectors of arity 0..3; bucket lists of length 0..3 over a 9-class f64 pool; linear_buckets/exponential_buckets over pool x pool x {0,1,3,64}; register/unregister histories of length <=3 over a collector pool incl. zero- and duplicate-descriptor collectors; Registry::new_custom over string pool; both encoders (encode, encode_utf8, encode_to_string) over the C04 family generator extended with UNTYPED, every type/payload mismatch, absent optionals, unknown enum value, empty name, empty metric list, writers failing after k bytes, and a size sweep (multi-byte characters and an escape at every byte offset up to 8300, thorough 33000, of help and label value). distinct = distinct (api, input class, ok/err) outcomes".into();
    rep.bounds = json!({"string_len": 2, "label_list_len": 3, "bucket_list_len": 3, "registry_history": 3});
    let s2 = strings(2);
    let mut sw = Sweep { rep: &mut rep };

    // 1. constructors
    let label_pool = ["a", "b", "le", "", "9"];
    let mut label_lists: Vec<Vec<&str>> = vec![];
    for l in 0..=3 {
        for ix in combi::sequences(label_pool.len(), l) {
            label_lists.push(ix.iter().map(|&i| label_pool[i]).collect());
        }
    }
    for &c in &CTORS {
        for s in &s2 {
            for help in ["", "h"] {
                let mut spec = Spec { name: s.clone(), help: help.into(), ..Default::default() };
                if c.is_vec() {
                    spec.vars = vec!["l".into()];
                }
                let want = if valid_metric_name(s) && !help.is_empty() { Want::Ok } else { Want::Err };
                sw.call(&format!("{:?}::new", c), "name/help", want, json!({"name": s, "help": help}), || build(c, &spec).map(|_| ()));
            }
            if c != Ctor::PullingGauge {
                let mut spec = Spec { name: "m".into(), help: "h".into(), consts: vec![(s.clone(), s.clone())], ..Default::default() };
                if c.is_vec() {
                    spec.vars = vec!["l".into()];
                }
                let want = if valid_label_name(s) && !(c.is_hist() && s == "le") { Want::Ok } else { Want::Err };
                sw.call(&format!("{:?}::new", c), "const-label", want, json!({"const": s}), || build(c, &spec).map(|_| ()));
            }
        }
        if c == Ctor::PullingGauge {
            continue;
        }
        for vl in &label_lists {
            for cl in [None, Some("a"), Some("le")] {
                let spec = Spec {
                    name: "m".into(),
                    help: "h".into(),
                    vars: vl.iter().map(|s| s.to_string()).collect(),
                    consts: cl.iter().map(|k| (k.to_string(), "v".to_string())).collect(),
                    ..Default::default()
                };
                let mut all: Vec<&str> = vl.clone();
                all.extend(cl.iter());
                let mut sorted = all.clone();
                sorted.sort();
                let invalid = all.iter().any(|n| !valid_label_name(n)) || sorted.windows(2).any(|w| w[0] == w[1]) || (c.is_hist() && all.contains(&"le"));
                // single metrics cannot carry variable labels (cardinality error)
                let want = if invalid || (!c.is_vec() && c != Ctor::Desc && !vl.is_empty()) { Want::Err } else { Want::Ok };
                sw.call(&format!("{:?}::new", c), "label-lists", want, json!({"vars": vl, "const": cl}), || build(c, &spec).map(|_| ()));
            }
        }
    }

    // 2. vector access
    let vals_pool = ["", "a"];
    for arity in 0..=3usize {
        let names: Vec<&str> = ["x", "y", "z"][..arity].to_vec();
        let mk_opts = || Opts::new("m", "h");
        let cv = CounterVec::new(mk_opts(), &names).unwrap();
        let icv = IntCounterVec::new(mk_opts(), &names).unwrap();
        let gv = GaugeVec::new(mk_opts(), &names).unwrap();
        let igv = IntGaugeVec::new(mk_opts(), &names).unwrap();
        let hv = HistogramVec::new(HistogramOpts::new("m", "h"), &names).unwrap();
        for l in 0..=4 {
            for ix in combi::sequences(vals_pool.len(), l) {
                let vals: Vec<&str> = ix.iter().map(|&i| vals_pool[i]).collect();
                let want = if l == arity { Want::Ok } else { Want::Err };
                let inp = json!({"arity": arity, "values": vals});
                sw.call("CounterVec::get_metric_with_label_values", "list", want, inp.clone(), || res(cv.get_metric_with_label_values(&vals)));
                sw.call("IntCounterVec::get_metric_with_label_values", "list", want, inp.clone(), || res(icv.get_metric_with_label_values(&vals)));
                sw.call("GaugeVec::get_metric_with_label_values", "list", want, inp.clone(), || res(gv.get_metric_with_label_values(&vals)));
                sw.call("IntGaugeVec::get_metric_with_label_values", "list", want, inp.clone(), || res(igv.get_metric_with_label_values(&vals)));
                sw.call("HistogramVec::get_metric_with_label_values", "list", want, inp.clone(), || res(hv.get_metric_with_label_values(&vals)));
                sw.call("CounterVec::remove_label_values", "list", want, inp.clone(), || res(cv.remove_label_values(&vals)));
                sw.call("HistogramVec::remove_label_values", "list", want, inp.clone(), || res(hv.remove_label_values(&vals)));
                // second removal: nothing there any more
                sw.call("CounterVec::remove_label_values", "list-absent", Want::Err, inp.clone(), || res(cv.remove_label_values(&vals)));
                let mut lcv = cv.local();
                let mut lhv = hv.local();
                sw.call("LocalCounterVec::remove_label_values", "list", Want::Err, inp.clone(), || res(lcv.remove_label_values(&vals)));
                sw.call("LocalHistogramVec::remove_label_values", "list", Want::Err, inp.clone(), || res(lhv.remove_label_values(&vals)));
            }
        }
        let key_pool = ["x", "y", "z", "zz", ""];
        for ks in combi::subsets(key_pool.len(), 0, 3) {
            let keys: Vec<&str> = ks.iter().map(|&i| key_pool[i]).collect();
            let m: HashMap<&str, &str> = keys.iter().map(|k| (*k, "v")).collect();
            let right = keys.len() == arity && names.iter().all(|n| keys.contains(n));
            let want = if right { Want::Ok } else { Want::Err };
            let inp = json!({"arity": arity, "keys": keys});
            sw.call("CounterVec::get_metric_with", "map", want, inp.clone(), || res(cv.get_metric_with(&m)));
            sw.call("IntGaugeVec::get_metric_with", "map", want, inp.clone(), || res(igv.get_metric_with(&m)));
            sw.call("HistogramVec::get_metric_with", "map", want, inp.clone(), || res(hv.get_metric_with(&m)));
            sw.call("CounterVec::remove", "map", want, inp.clone(), || res(cv.remove(&m)));
            sw.call("HistogramVec::remove", "map", want, inp.clone(), || res(hv.remove(&m)));
            sw.call("CounterVec::remove", "map-absent", Want::Err, inp.clone(), || res(cv.remove(&m)));
        }
    }

    // 3. buckets
    for ix in combi::sequences_upto(F.len(), 3) {
        let b: Vec<f64> = ix.iter().map(|&i| F[i]).collect();
        let valid = b.is_empty() || (b.iter().all(|x| !x.is_nan()) && b.windows(2).all(|w| w[0] < w[1]));
        let want = if valid { Want::Ok } else { Want::Err };
        let inp = json!({"buckets": b.iter().map(|x| f64s(*x)).collect::<Vec<_>>()});
        sw.call("Histogram::with_opts", "buckets", want, inp.clone(), || res(Histogram::with_opts(HistogramOpts::new("m", "h").buckets(b.clone()))));
        sw.call("HistogramVec::get_metric_with_label_values", "buckets", want, inp.clone(), || {
            let v = HistogramVec::new(HistogramOpts::new("m", "h").buckets(b.clone()), &["l"]).map_err(|e| e.to_string())?;
            res(v.get_metric_with_label_values(&["a"]))
        });
    }
    for &a in &F {
        for &b in &F {
            for n in [0usize, 1, 3, 64] {
                let inp = json!({"a": f64s(a), "b": f64s(b), "count": n});
                let want = if n < 1 || b <= 0.0 { Want::Err } else { Want::Any };
                sw.call("linear_buckets", "params", want, inp.clone(), || res(linear_buckets(a, b, n)));
                let want = if n < 1 || a <= 0.0 || b <= 1.0 { Want::Err } else { Want::Any };
                sw.call("exponential_buckets", "params", want, inp.clone(), || res(exponential_buckets(a, b, n)));
            }
        }
    }

    // 4. registry
    let pool: Vec<(&str, Box<dyn Fn() -> Box<dyn Collector>>)> = vec![
        ("counter-m", Box::new(|| Box::new(prometheus::Counter::new("m", "h").unwrap()))),
        ("counter-m-again", Box::new(|| Box::new(prometheus::Counter::new("m", "h").unwrap()))),
        ("gauge-m-otherhelp", Box::new(|| Box::new(prometheus::Gauge::new("m", "h2").unwrap()))),
        ("zero-desc", Box::new(|| Box::new(Multi(vec![])))),
        ("dup-desc", Box::new(|| Box::new(Multi(vec![d("n", "x"), d("n", "x")])))),
        ("multi", Box::new(|| Box::new(Multi(vec![d("p", "x"), d("m", "h")])))),
    ];
    let depth = 3;
    let ops = pool.len() * 2;
    // descriptor ids of each pool collector (reference side): None = invalid on its own (repeats a descriptor)
    let ids: Vec<Option<Vec<&str>>> = vec![Some(vec!["m"]), Some(vec!["m"]), Some(vec!["m"]), Some(vec![]), None, Some(vec!["p", "m"])];
    for hist in combi::sequences_upto(ops, depth) {
        if hist.is_empty() {
            continue;
        }
        let reg = Registry::new();
        let inp = json!({"history": hist.iter().map(|o| format!("{}({})", if o % 2 == 0 {"register"} else {"unregister"}, pool[o / 2].0)).collect::<Vec<_>>()});
        let last = hist.len() - 1;
        // reference: registered descriptor ids and registered collectors (as id sets)
        let mut reg_ids: Vec<&str> = vec![];
        let mut reg_cols: Vec<Vec<&str>> = vec![];
        // help text ever successfully registered under a name (survives unregister)
        let helps: Vec<Vec<(&str, &str)>> = vec![vec![("m", "h")], vec![("m", "h")], vec![("m", "h2")], vec![], vec![("n", "x")], vec![("p", "x"), ("m", "h")]];
        let mut dims: Vec<(&str, &str)> = vec![];
        for (i, o) in hist.iter().enumerate() {
            let col = (pool[o / 2].1)();
            let api = if o % 2 == 0 { "Registry::register" } else { "Registry::unregister" };
            let my = &ids[o / 2];
            let want = if o % 2 == 0 {
                match my {
                    None => Want::Err,
                    Some(v) if v.iter().any(|x| reg_ids.contains(x)) || reg_cols.contains(v) => Want::Err,
                    Some(_) if helps[o / 2].iter().any(|(n, h)| dims.iter().any(|(dn, dh)| dn == n && dh != h)) => Want::Err,
                    Some(v) => {
                        reg_ids.extend(v.iter());
                        reg_cols.push(v.clone());
                        for d in &helps[o / 2] {
                            if !dims.contains(d) {
                                dims.push(*d);
                            }
                        }
                        Want::Ok
                    }
                }
            } else {
                let key: Vec<&str> = match my {
                    Some(v) => v.clone(),
                    None => vec!["n"],
                };
                match reg_cols.iter().position(|c| *c == key) {
                    Some(p) => {
                        reg_cols.remove(p);
                        reg_ids.retain(|x| !key.contains(x));
                        Want::Ok
                    }
                    None => Want::Err,
                }
            };
            let f = || if o % 2 == 0 { res(reg.register(col)) } else { res(reg.unregister(col)) };
            if i == last {
                sw.call(api, "history", want, inp.clone(), f);
            } else {
                match catch(f) {
                    Ok(r) => {
                        // an earlier step that already disagrees is reported when it is the last step of a shorter history
                        if r.is_ok() != (want == Want::Ok) {
                            break;
                        }
                    }
                    Err(_) => break,
                }
            }
        }
        sw.call("Registry::gather", "after-history", Want::Any, inp.clone(), || {
            reg.gather();
            Ok(())
        });
    }
    for s in &s2 {
        let want = if valid_metric_name(s) { Want::Ok } else { Want::Err };
        sw.call("Registry::new_custom", "prefix", want, json!({"prefix": s}), || res(Registry::new_custom(Some(s.clone()), None)));
        let want = if valid_label_name(s) { Want::Ok } else { Want::Err };
        let mut m = HashMap::new();
        m.insert(s.clone(), s.clone());
        sw.call("Registry::new_custom", "label", want, json!({"label": s}), || res(Registry::new_custom(None, Some(m.clone()))));
    }
    sw.call("Registry::new_custom", "none", Want::Ok, json!(null), || res(Registry::new_custom(None, None)));

    // 5. encoders
    let types = [RType::Counter, RType::Gauge, RType::Summary, RType::Untyped, RType::Histogram];
    let mut fams: Vec<(String, MetricFamily)> = vec![];
    for f in gen_families(if thorough { 1 } else { 0 }, &types) {
        fams.push((format!("generated:{:?}", f.typ), f.to_proto()));
    }
    fams.extend(mismatch_families());
    let text = TextEncoder::new();
    let pb = ProtobufEncoder::new();
    for (class, mf) in &fams {
        let inp = json!({"family": format!("{:?}", mf).chars().take(400).collect::<String>()});
        let one = std::slice::from_ref(mf);
        sw.call("TextEncoder::encode", class, Want::Any, inp.clone(), || res(text.encode(one, &mut Vec::new())));
        sw.call("TextEncoder::encode_utf8", class, Want::Any, inp.clone(), || res(text.encode_utf8(one, &mut String::new())));
        sw.call("TextEncoder::encode_to_string", class, Want::Any, inp.clone(), || res(text.encode_to_string(one)));
        sw.call("ProtobufEncoder::encode", class, Want::Any, inp.clone(), || res(pb.encode(one, &mut Vec::new())));
    }
    // size sweep: a multi-byte character and an escape at every byte offset up to 8300 (thorough 33000) of the output
    {
        let top = if thorough { 33000 } else { 8300 };
        for k in 0..=top {
            let tok = format!("{}\u{e9}\\\n\u{1F600}", "h".repeat(k));
            let mut m = RMetric { gauge: Some(1.0), ..Default::default() };
            m.labels = vec![("l".into(), tok.clone())];
            let f = RFamily { name: "m".into(), help: tok, typ: RType::Gauge, metrics: vec![m] }.to_proto();
            let one = std::slice::from_ref(&f);
            let inp = json!({"token_prefix_bytes": k});
            sw.call("TextEncoder::encode", "size-sweep", Want::Ok, inp.clone(), || res(text.encode(one, &mut Vec::new())));
            sw.call("TextEncoder::encode_utf8", "size-sweep", Want::Ok, inp.clone(), || res(text.encode_utf8(one, &mut String::new())));
            sw.call("ProtobufEncoder::encode", "size-sweep", Want::Ok, inp.clone(), || res(pb.encode(one, &mut Vec::new())));
        }
    }
    // refused families
    let good = RFamily { name: "m".into(), help: "h".into(), typ: RType::Counter, metrics: vec![RMetric { counter: Some(1.0), ..Default::default() }] };
    let mut noname = good.clone();
    noname.name = String::new();
    let mut nometric = good.clone();
    nometric.metrics.clear();
    for (class, f) in [("empty-name", noname), ("no-metrics", nometric)] {
        let stream = vec![good.to_proto(), f.to_proto()];
        let inp = f.to_json();
        sw.call("TextEncoder::encode", class, Want::Err, inp.clone(), || res(text.encode(&stream, &mut Vec::new())));
        sw.call("TextEncoder::encode_utf8", class, Want::Err, inp.clone(), || res(text.encode_utf8(&stream, &mut String::new())));
        sw.call("TextEncoder::encode_to_string", class, Want::Err, inp.clone(), || res(text.encode_to_string(&stream)));
        sw.call("ProtobufEncoder::encode", class, Want::Err, inp.clone(), || res(pb.encode(&stream, &mut Vec::new())));
    }
    sw.call("TextEncoder::encode", "empty-stream", Want::Ok, json!([]), || res(text.encode(&[], &mut Vec::new())));
    sw.call("ProtobufEncoder::encode", "empty-stream", Want::Ok, json!([]), || res(pb.encode(&[], &mut Vec::new())));
    // failing writers
    let basis: Vec<MetricFamily> = basis_families().iter().map(|f| f.to_proto()).collect();
    let full_text = text.encode_to_string(&basis).unwrap_or_default().len();
    let mut full_pb = Vec::new();
    let _ = pb.encode(&basis, &mut full_pb);
    for k in 0..full_text.max(full_pb.len()) + 2 {
        let inp = json!({"writer_fails_after_bytes": k});
        let want_t = if k < full_text { Want::Err } else { Want::Ok };
        sw.call("TextEncoder::encode", "failing-writer", want_t, inp.clone(), || res(text.encode(&basis, &mut FailAfter(k))));
        let want_p = if k < full_pb.len() { Want::Err } else { Want::Ok };
        sw.call("ProtobufEncoder::encode", "failing-writer", want_p, inp.clone(), || res(pb.encode(&basis, &mut FailAfter(k))));
    }

    rep.states = rep.evaluations;
    rep.traces = rep.evaluations;
    rep.assumptions = vec![
        "argument sizes that exhaust memory (count = usize::MAX) are outside 'bounded size'".into(),
        "with_label_values / with and the local vectors' with_label_values are documented to panic and are not judged".into(),
        "NaN/infinite width, start or factor are not documented as invalid for linear_buckets/exponential_buckets: only 'returns' is required there".into(),
    ];
    std::process::exit(rep.finish());
}
