//! C20 — registration macros are faithful shorthands for the explicit calls.
//! E3 over generated programs: every macro arm x trailing comma is written out
//! as a call site in a generated crate (harness/gen/c20, regenerated on every
//! run), built against /repo, and looped over a finite argument pool.

use serde_json::json;
use std::fmt::Write as _;
use std::process::Command;
use verif_harness::*;

struct Site {
    text: String,
    /// expression building the explicit (unregistered) metric
    explicit: String,
    /// the call names a registry (`reg`)
    with_registry: bool,
}

fn sites() -> Vec<Site> {
    let mut v = vec![];
    let opts = "Opts::new(name, help).namespace(\"ns\").subsystem(\"sub\").const_labels(smap(&c.consts))";
    let hopts = "HistogramOpts::new(name, help).namespace(\"ns\").const_labels(smap(&c.consts)).buckets(c.buckets.clone())";
    let commas = ["", ","];
    for (mac, ty) in [("register_counter", "Counter"), ("register_int_counter", "IntCounter"), ("register_gauge", "Gauge"), ("register_int_gauge", "IntGauge")] {
        for wr in [false, true] {
            let (m, r) = if wr { (format!("{}_with_registry", mac), ", reg") } else { (mac.to_string(), "") };
            for tc in commas {
                v.push(Site { text: format!("{}!({}{}{})", m, opts, r, tc), explicit: format!("{}::with_opts({}).unwrap()", ty, opts), with_registry: wr });
                v.push(Site { text: format!("{}!(name, help{}{})", m, r, tc), explicit: format!("{}::new(name, help).unwrap()", ty), with_registry: wr });
            }
        }
    }
    for (mac, ty) in [("register_counter_vec", "CounterVec"), ("register_int_counter_vec", "IntCounterVec"), ("register_gauge_vec", "GaugeVec"), ("register_int_gauge_vec", "IntGaugeVec")] {
        for wr in [false, true] {
            let (m, r) = if wr { (format!("{}_with_registry", mac), ", reg") } else { (mac.to_string(), "") };
            for tc in commas {
                v.push(Site { text: format!("{}!({}, lnames{}{})", m, opts, r, tc), explicit: format!("{}::new({}, lnames).unwrap()", ty, opts), with_registry: wr });
                v.push(Site { text: format!("{}!(name, help, lnames{}{})", m, r, tc), explicit: format!("{}::new(Opts::new(name, help), lnames).unwrap()", ty), with_registry: wr });
            }
        }
    }
    for wr in [false, true] {
        let (m, r) = if wr { ("register_histogram_with_registry", ", reg") } else { ("register_histogram", "") };
        for tc in commas {
            v.push(Site { text: format!("{}!(name, help{}{})", m, r, tc), explicit: "Histogram::with_opts(HistogramOpts::new(name, help)).unwrap()".into(), with_registry: wr });
            v.push(Site { text: format!("{}!(name, help, c.buckets.clone(){}{})", m, r, tc), explicit: "Histogram::with_opts(HistogramOpts::new(name, help).buckets(c.buckets.clone())).unwrap()".into(), with_registry: wr });
            v.push(Site { text: format!("{}!({}{}{})", m, hopts, r, tc), explicit: format!("Histogram::with_opts({}).unwrap()", hopts), with_registry: wr });
        }
        let (m, r) = if wr { ("register_histogram_vec_with_registry", ", reg") } else { ("register_histogram_vec", "") };
        for tc in commas {
            v.push(Site { text: format!("{}!({}, lnames{}{})", m, hopts, r, tc), explicit: format!("HistogramVec::new({}, lnames).unwrap()", hopts), with_registry: wr });
            v.push(Site { text: format!("{}!(name, help, lnames{}{})", m, r, tc), explicit: "HistogramVec::new(HistogramOpts::new(name, help), lnames).unwrap()".into(), with_registry: wr });
            v.push(Site { text: format!("{}!(name, help, lnames, c.buckets.clone(){}{})", m, r, tc), explicit: "HistogramVec::new(HistogramOpts::new(name, help).buckets(c.buckets.clone()), lnames).unwrap()".into(), with_registry: wr });
        }
    }
    v
}

/// Wrap every macro argument in `ev(k, ..)` so that the generated program can count evaluations.
fn instrument(text: &str, opts: &str, hopts: &str) -> (String, Vec<usize>) {
    let mut t = text.to_string();
    let mut used = vec![];
    let mut rep = |t: &mut String, from: &str, to: String, k: usize, used: &mut Vec<usize>| {
        if t.contains(from) {
            *t = t.replacen(from, &to, 1);
            used.push(k);
        }
    };
    // order matters: longer patterns first
    rep(&mut t, hopts, format!("ev(0, {})", hopts), 0, &mut used);
    rep(&mut t, opts, format!("ev(0, {})", opts), 0, &mut used);
    rep(&mut t, "(name, help", "(ev(0, name), ev(1, help)".to_string(), 0, &mut used);
    if t.contains("ev(1, help)") {
        used.push(1);
    }
    rep(&mut t, ", lnames", ", ev(2, lnames)".to_string(), 2, &mut used);
    rep(&mut t, ", c.buckets.clone()", ", ev(3, c.buckets.clone())".to_string(), 3, &mut used);
    rep(&mut t, ", reg", ", ev(4, reg)".to_string(), 4, &mut used);
    used.sort();
    used.dedup();
    (t, used)
}

fn generate() -> (String, usize, usize) {
    let sites = sites();
    let opts_s = "Opts::new(name, help).namespace(\"ns\").subsystem(\"sub\").const_labels(smap(&c.consts))";
    let hopts_s = "HistogramOpts::new(name, help).namespace(\"ns\").const_labels(smap(&c.consts)).buckets(c.buckets.clone())";
    let mut src = String::new();
    src.push_str("// GENERATED by harness/src/bin/c20.rs — do not edit.\n#![allow(unused_variables, clippy::all)]\n#[macro_use]\nextern crate prometheus;\ninclude!(\"/verif/harness/c20/support.rs\");\n\n");
    for (i, s) in sites.iter().enumerate() {
        // the options expressions contain `c.buckets.clone()` / `name, help` themselves: instrument the macro call only
        let (itext, used) = if s.text.contains(hopts_s) {
            let t = s.text.replacen(hopts_s, "@@H@@", 1);
            let (t2, mut u) = instrument(&t, opts_s, "@@none@@");
            u.push(0);
            u.sort();
            u.dedup();
            (t2.replacen("@@H@@", &format!("ev(0, {})", hopts_s), 1), u)
        } else if s.text.contains(opts_s) {
            let t = s.text.replacen(opts_s, "@@O@@", 1);
            let (t2, mut u) = instrument(&t, "@@none@@", "@@none@@");
            u.push(0);
            u.sort();
            u.dedup();
            (t2.replacen("@@O@@", &format!("ev(0, {})", opts_s), 1), u)
        } else {
            instrument(&s.text, "@@none@@", "@@none@@")
        };
        let _ = write!(
            src,
            "fn site_{i}(c: &Case, regs: &Regs) -> SiteResult {{\n    let owned = format!(\"{{}}_s{i}\", c.name);\n    let name: &str = &owned;\n    let help: &str = c.help;\n    let lnames: &[&str] = &c.label_names;\n    let reg = regs.target(c.target);\n    ev_reset();\n    let got = boxed({text});\n    let evs = ev_verdict(&{used:?}, ev_counts());\n    let again = boxed({text});\n    let explicit: Box<dyn Probe> = Box::new({explicit});\n    judge({lit:?}, c, regs, got, again, explicit, {amount}, evs)\n}}\n\n",
            i = i,
            text = itext,
            used = used,
            explicit = s.explicit,
            lit = s.text,
            amount = 1000 + i
        );
    }
    // non-registering macros: labels!, opts!, histogram_opts!
    let mut pure = vec![];
    for tc in ["", ","] {
        pure.push((format!("labels!{{{}}}", if tc.is_empty() { "" } else { "" }), 0usize, "labels".to_string()));
        pure.push((format!("labels!{{ev(0, c.consts[0].0) => ev(1, c.consts[0].1){}}}", tc), 1, "labels".to_string()));
        pure.push((format!("labels!{{ev(0, c.consts[0].0) => ev(1, c.consts[0].1), ev(2, c.consts[1].0) => ev(3, c.consts[1].1){}}}", tc), 2, "labels".to_string()));
        pure.push((format!("opts!(ev(0, name), ev(1, help){})", tc), 100, "opts0".to_string()));
        pure.push((format!("opts!(ev(0, name), ev(1, help), ev(2, cmap(&c.consts)){})", tc), 100, "opts1".to_string()));
        pure.push((format!("opts!(ev(0, name), ev(1, help), ev(2, cmap(&c.consts)), ev(3, cmap(&c.consts2)){})", tc), 100, "opts2".to_string()));
        pure.push((format!("histogram_opts!(ev(0, name), ev(1, help){})", tc), 100, "hopts0".to_string()));
        pure.push((format!("histogram_opts!(ev(0, name), ev(1, help), ev(2, c.buckets.clone()){})", tc), 100, "hopts1".to_string()));
        pure.push((format!("histogram_opts!(ev(0, name), ev(1, help), ev(2, c.buckets.clone()), ev(3, smap(&c.consts)){})", tc), 100, "hopts2".to_string()));
    }
    for (j, (text, arity, kind)) in pure.iter().enumerate() {
        let check = match kind.as_str() {
            "labels" => format!(
                "    if c.consts.len() != {arity} {{ return None; }}\n    let got: HashMap<&str, &str> = {text};\n    let exp: HashMap<&str, &str> = c.consts.iter().cloned().collect();\n    let v = if got == exp {{ Ok(format!(\"labels|{{:?}}\", {{ let mut k: Vec<_> = got.iter().collect(); k.sort(); k }})) }} else {{ Err((\"labels-differ\".to_string(), format!(\"{{:?}} vs {{:?}}\", got, exp))) }};\n",
                arity = arity,
                text = text
            ),
            k if k.starts_with("opts") => {
                let exp = match k {
                    "opts0" => "Opts::new(name, help)".to_string(),
                    "opts1" => "Opts::new(name, help).const_labels(smap(&c.consts))".to_string(),
                    _ => "{ let mut m = smap(&c.consts); m.extend(smap(&c.consts2)); Opts::new(name, help).const_labels(m) }".to_string(),
                };
                format!(
                    "    let got = {text};\n    let exp = {exp};\n    let (g, e) = (prometheus::core::Describer::describe(&got).map(|d| desc_key(&d)).map_err(|e| e.to_string()), prometheus::core::Describer::describe(&exp).map(|d| desc_key(&d)).map_err(|e| e.to_string()));\n    let v = if g == e && got.const_labels == exp.const_labels {{ Ok(format!(\"opts|{{:?}}\", g)) }} else {{ Err((\"opts-differ\".to_string(), format!(\"macro {{:?}} {{:?}} vs explicit {{:?}} {{:?}}\", g, got.const_labels, e, exp.const_labels))) }};\n",
                    text = text,
                    exp = exp
                )
            }
            k => {
                let exp = match k {
                    "hopts0" => "HistogramOpts::new(name, help)",
                    "hopts1" => "HistogramOpts::new(name, help).buckets(c.buckets.clone())",
                    _ => "HistogramOpts::new(name, help).buckets(c.buckets.clone()).const_labels(smap(&c.consts))",
                };
                format!(
                    "    let got = {text};\n    let exp = {exp};\n    let (g, e) = (prometheus::core::Describer::describe(&got).map(|d| desc_key(&d)).map_err(|e| e.to_string()), prometheus::core::Describer::describe(&exp).map(|d| desc_key(&d)).map_err(|e| e.to_string()));\n    let same_b = got.buckets.iter().map(|x| x.to_bits()).collect::<Vec<_>>() == exp.buckets.iter().map(|x| x.to_bits()).collect::<Vec<_>>();\n    let v = if g == e && same_b {{ Ok(format!(\"hopts|{{:?}}|{{:?}}\", g, got.buckets)) }} else {{ Err((\"histogram-opts-differ\".to_string(), format!(\"macro {{:?}} {{:?}} vs explicit {{:?}} {{:?}}\", g, got.buckets, e, exp.buckets))) }};\n",
                    text = text,
                    exp = exp
                )
            }
        };
        let _ = write!(
            src,
            "fn pure_{j}(c: &Case) -> Option<SiteResult> {{\n    let owned = format!(\"{{}}_p{j}\", c.name);\n    let name: &str = &owned;\n    let help: &str = c.help;\n    ev_reset();\n{check}    let n_args = {lit:?}.matches(\"ev(\").count();\n    let v = match ev_verdict(&(0..n_args).collect::<Vec<_>>(), ev_counts()) {{ Ok(()) => v, Err(e) => Err(e) }};\n    Some(SiteResult {{ site: {lit:?}, case: c.id, verdict: v }})\n}}\n\n",
            j = j,
            check = check,
            lit = text
        );
    }
    // main
    src.push_str("fn cases() -> Vec<Case> {\n    let mut v = vec![];\n    let lns: [Vec<&'static str>; 2] = [vec![\"l\"], vec![\"l2\", \"l1\"]];\n    let cs: [Vec<(&'static str, &'static str)>; 3] = [vec![], vec![(\"k\", \"v\")], vec![(\"k\", \"v\"), (\"k2\", \"v \\n\\u{e9}\")]];\n    let cs2: [Vec<(&'static str, &'static str)>; 2] = [vec![], vec![(\"k\", \"other\"), (\"k3\", \"w\")]];\n    let bs: [Vec<f64>; 3] = [DEFAULT_BUCKETS.to_vec(), vec![1.0, 2.0], linear_buckets(0.5, 0.5, 3).unwrap()];\n    let hs = [\"h\", \"help \\n \\u{e9} \\\\\"];\n    for ln in &lns { for c1 in &cs { for c2 in &cs2 { for b in &bs { for h in hs { for t in 0..3 {\n        let id = v.len();\n        v.push(Case { id, name: format!(\"c20_{}\", id), help: h, consts: c1.clone(), consts2: c2.clone(), label_names: ln.clone(), buckets: b.clone(), target: t });\n    } } } } } }\n    v\n}\n\n");
    src.push_str("fn emit(r: SiteResult) {\n    match r.verdict {\n        Ok(class) => println!(\"OK\\t{}\\t{}\\t{}\", r.site, r.case, class.replace('\\n', \" \").replace('\\t', \" \")),\n        Err((sig, what)) => println!(\"BAD\\t{}\\t{}\\t{}\\t{}\", r.site, r.case, sig, what.replace('\\n', \" \").replace('\\t', \" \")),\n    }\n}\n\n");
    src.push_str("fn main() {\n    std::panic::set_hook(Box::new(|_| {}));\n    let regs = Regs::new();\n    for c in cases() {\n");
    for (i, s) in sites.iter().enumerate() {
        let cond = if s.with_registry { "true" } else { "c.target == 0" };
        let _ = write!(src, "        if {cond} {{ match std::panic::catch_unwind(std::panic::AssertUnwindSafe(|| site_{i}(&c, &regs))) {{ Ok(r) => emit(r), Err(_) => println!(\"BAD\\t{{}}\\t{{}}\\tpanic\\tcall site panicked\", {lit:?}, c.id) }} }}\n", cond = cond, i = i, lit = s.text);
    }
    for (j, (text, _, _)) in pure.iter().enumerate() {
        let _ = write!(src, "        if c.target == 0 {{ match std::panic::catch_unwind(std::panic::AssertUnwindSafe(|| pure_{j}(&c))) {{ Ok(Some(r)) => emit(r), Ok(None) => {{}}, Err(_) => println!(\"BAD\\t{{}}\\t{{}}\\tpanic\\tcall site panicked\", {lit:?}, c.id) }} }}\n", j = j, lit = text);
    }
    src.push_str("    }\n    println!(\"END\");\n}\n");
    (src, sites.len(), pure.len())
}

fn main() {
    let args = parse_args();
    let mut rep = Report::new("C20", &args);
    if let Some(p) = &args.replay {
        let doc = read_replay(p);
        println!("call site: {}\ncase: {}\n{}", doc["site"], doc["case"], doc["detail"]);
    }
    let (src, nsites, npure) = generate();
    let dir = "/verif/harness/gen/c20";
    std::fs::create_dir_all(format!("{}/src", dir)).unwrap();
    std::fs::create_dir_all(format!("{}/.cargo", dir)).unwrap();
    std::fs::write(format!("{}/src/main.rs", dir), &src).unwrap();
    std::fs::write(format!("{}/.cargo/config.toml", dir), "[net]\noffline = true\n").unwrap();
    std::fs::write(
        format!("{}/Cargo.toml", dir),
        "[package]\nname = \"c20gen\"\nversion = \"0.1.0\"\nedition = \"2021\"\npublish = false\n\n[workspace]\n\n[dependencies]\nprometheus = { path = \"/repo\", features = [\"verif\"] }\n\n[profile.release]\nopt-level = 0\ndebug = false\ndebug-assertions = true\nincremental = false\n",
    )
    .unwrap();
    let _ = std::fs::copy("/repo/Cargo.lock", format!("{}/Cargo.lock", dir));
    let out = Command::new("cargo")
        .args(["build", "--release", "--offline"])
        .current_dir(dir)
        .env("CARGO_TARGET_DIR", "/verif/harness/target/c20gen")
        .env("CARGO_NET_OFFLINE", "true")
        .output()
        .expect("cargo");
    rep.rule = format!("generated program: {} registering call sites (every arm of register_{{counter,int_counter,gauge,int_gauge,counter_vec,int_counter_vec,gauge_vec,int_gauge_vec,histogram,histogram_vec}}! and their _with_registry forms, with and without trailing comma) and {} call sites of labels!/opts!/histogram_opts!, each looped over 216 argument cases (label-name lists of 1-2, constant-label maps of 0-2 entries, an overriding second map, bucket lists default/[1,2]/linear, two help texts, target registry default / plain custom / custom with prefix and common label); per call: descriptor and buckets equal the explicit constructor's, the updated handle's sample shows up in exactly the named registry, a second identical invocation evaluates to Err and leaves the first registration intact; every macro argument expression is evaluated exactly once. distinct = distinct (kind, descriptor, buckets) results", nsites, npure);
    rep.bounds = json!({"registering_call_sites": nsites, "pure_call_sites": npure, "cases": 216});
    if !out.status.success() {
        let err = String::from_utf8_lossy(&out.stderr).to_string();
        if err.contains("could not compile `c20gen`") {
            let excerpt: String = err.lines().filter(|l| l.starts_with("error") || l.contains("-->")).take(12).collect::<Vec<_>>().join(" | ");
            rep.evaluations = 1;
            rep.outcome("build-failed");
            rep.outcome("x");
            rep.violation("generated-call-sites-do-not-compile", format!("a documented macro form no longer compiles: {}", excerpt), json!({"engine":"enum","detail": excerpt, "site": "(see compiler output)", "case": null}));
            std::process::exit(rep.finish());
        }
        eprintln!("BUILD-FAILED (generated c20 crate):\n{}", err.chars().take(3000).collect::<String>());
        std::process::exit(2);
    }
    let run = match run_with_timeout(&mut Command::new("/verif/harness/target/c20gen/release/c20gen"), 600) {
        Ok(r) => r,
        Err(e) => {
            rep.evaluations = 1;
            rep.outcome("hang");
            rep.outcome("x");
            rep.violation("generated-program-hung", format!("the generated program {}", e), json!({"engine":"enum","detail": e, "site": null, "case": null}));
            std::process::exit(rep.finish());
        }
    };
    let text = String::from_utf8_lossy(&run.stdout).to_string();
    if !run.status.success() || !text.trim_end().ends_with("END") {
        eprintln!("generated program did not finish: status {:?}\n{}", run.status.code(), String::from_utf8_lossy(&run.stderr).chars().take(2000).collect::<String>());
        std::process::exit(2);
    }
    for line in text.lines() {
        let f: Vec<&str> = line.split('\t').collect();
        match f[0] {
            "OK" => {
                rep.evaluations += 1;
                rep.transitions += 6;
                rep.outcome(f[3]);
                if rep.evaluations % 3000 == 7 {
                    rep.sample(json!({"site": f[1], "case": f[2], "result": f[3]}));
                }
            }
            "BAD" => {
                rep.evaluations += 1;
                let mac = f[1].split('!').next().unwrap_or("");
                rep.outcome(format!("VIOL|{}|{}", f[3], mac));
                rep.violation(format!("{}:{}", f[3], mac), format!("{} (case {}): {}", f[1], f[2], f.get(4).unwrap_or(&"")), json!({"engine":"enum","site": f[1], "case": f[2], "detail": f.get(4).unwrap_or(&"")}));
            }
            _ => {}
        }
    }
    rep.states = rep.evaluations;
    rep.traces = rep.evaluations;
    rep.assumptions = vec!["the macros' inner `.unwrap()` on constructor errors is not judged (arguments are valid); argument values are drawn from the fixed pools".into()];
    std::process::exit(rep.finish());
}
