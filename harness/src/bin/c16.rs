//! C16 — exposition does not depend on the protobuf feature.
//! One scenario program (harness/c16/scenario.rs) is compiled twice against
//! /repo — default protobuf-backed model and --no-default-features plain model —
//! and the two transcripts over a bounded scenario grammar are compared.

use serde_json::json;
use std::process::Command;
use verif_harness::*;

fn build(which: &str) -> Result<String, String> {
    let dir = format!("/verif/harness/c16/{}", which);
    let target = format!("/verif/harness/target/c16-{}", which);
    let out = Command::new("cargo")
        .args(["build", "--release", "--offline"])
        .current_dir(&dir)
        .env("CARGO_TARGET_DIR", &target)
        .env("CARGO_NET_OFFLINE", "true")
        .output()
        .map_err(|e| format!("cargo: {}", e))?;
    if !out.status.success() {
        return Err(format!("build of c16-{} failed:\n{}", which, String::from_utf8_lossy(&out.stderr)));
    }
    Ok(format!("{}/release/c16-{}", target, which))
}

fn run(bin: &str, max: &str) -> Result<String, String> {
    let out = run_with_timeout(Command::new(bin).arg(max), 600).map_err(|e| format!("{}: {}", bin, e))?;
    if !out.status.success() {
        return Err(format!("{} exited with {:?}: {}", bin, out.status.code(), String::from_utf8_lossy(&out.stderr).chars().take(2000).collect::<String>()));
    }
    String::from_utf8(out.stdout).map_err(|_| format!("{} printed invalid UTF-8", bin))
}

fn blocks(t: &str) -> Vec<&str> {
    let mut out = vec![];
    let mut start = None;
    for (i, _) in t.match_indices("SCENARIO ") {
        if i == 0 || t.as_bytes()[i - 1] == b'\n' {
            if let Some(s) = start {
                out.push(&t[s..i]);
            }
            start = Some(i);
        }
    }
    if let Some(s) = start {
        let end = t.rfind("END scenarios=").unwrap_or(t.len());
        out.push(&t[s..end]);
    }
    out
}

fn main() {
    let args = parse_args();
    let mut rep = Report::new("C16", &args);
    let thorough = args.tier == Tier::Thorough;
    if let Some(p) = &args.replay {
        let doc = read_replay(p);
        println!("scenario: {}\n--- protobuf model ---\n{}\n--- plain model ---\n{}", doc["scenario"], doc["protobuf_model"].as_str().unwrap_or(""), doc["plain_model"].as_str().unwrap_or(""));
    }
    let max = if thorough { "3" } else { "2" };
    let (pb, plain) = match (build("pb"), build("plain")) {
        (Ok(a), Ok(b)) => (a, b),
        (a, b) => {
            // a source change that breaks one configuration's build is a machinery failure, not a verdict
            eprintln!("BUILD-FAILED: {:?} {:?}", a.err(), b.err());
            std::process::exit(2);
        }
    };
    let ta = run(&pb, max);
    let tb = run(&plain, max);
    let (ta, tb) = match (ta, tb) {
        (Ok(a), Ok(b)) => (a, b),
        (a, b) => {
            // a crash of one build on a scenario is a difference in behaviour
            let detail = format!("protobuf build: {:?}; plain build: {:?}", a.as_ref().err(), b.as_ref().err());
            rep.evaluations = 1;
            rep.violation("scenario-program-crashed", detail.clone(), json!({"engine":"enum","detail": detail}));
            rep.outcome("crash");
            rep.outcome("x");
            std::process::exit(rep.finish());
        }
    };
    let ba = blocks(&ta);
    let bb = blocks(&tb);
    rep.rule = format!("scenario grammar: subsets of size <= {} of 14 collector kinds (a custom collector handing over hand-built families: payload/type mismatches, histograms without optional fields, a summary; Counter, Counter with constant labels and Unicode help, Gauge, Histogram with explicit +Inf bound, PullingGauge, CounterVec, GaugeVec with constant label, two same-name counters, IntCounter, IntGaugeVec, HistogramVec with local flush, histograms whose only bucket is +Inf observed or never observed) x every combination of 5 update scripts per member (<=3 updates incl. -0.0, NaN, inf, 1e300, 0.1+0.2, u64::MAX, i64::MIN; triples: a diagonal of the script space) x 5 registry configurations (prefix, 1-3 common labels sorting before/between/after the metrics' own labels) ; per scenario: register results, canonical bit-exact dump of gather(), TextEncoder string and bytes, unregister + second gather. The transcript of the protobuf-backed build must equal the transcript of the --no-default-features build. distinct = distinct scenario transcripts", max);
    rep.bounds = json!({"subset_size": max, "kinds": 14, "scripts": 5, "configs": 5});
    rep.evaluations = (ba.len() + bb.len()) as u64;
    rep.states = ba.len() as u64;
    rep.transitions = (ba.len() * 8) as u64;
    rep.traces = ba.len().min(bb.len()) as u64;
    if ba.len() != bb.len() {
        rep.violation("scenario-count-differs", format!("{} scenarios in the protobuf build, {} in the plain build", ba.len(), bb.len()), json!({"engine":"enum","detail":"transcripts have different numbers of scenarios"}));
    }
    for (a, b) in ba.iter().zip(&bb) {
        rep.outcome(a);
        if a != b {
            let head = a.lines().next().unwrap_or("").to_string();
            // classify by the first differing line kind
            let kind = a.lines().zip(b.lines()).find(|(x, y)| x != y).map(|(x, _)| x.trim_start().split(' ').next().unwrap_or("").to_string()).unwrap_or_else(|| "length".into());
            let la = a.lines().zip(b.lines()).find(|(x, y)| x != y).map(|(x, y)| format!("protobuf: {} | plain: {}", x, y)).unwrap_or_default();
            rep.violation(format!("transcripts-differ:{}", kind), format!("{}: {}", head, la), json!({"engine":"enum","scenario": head, "protobuf_model": a, "plain_model": b, "detail": la}));
        }
    }
    if let Some(b) = ba.get(ba.len() / 3) {
        rep.sample(json!({"scenario_transcript": b}));
    }
    rep.assumptions = vec!["the scenario program only uses API present in both data models; reading a counter/gauge value uses value() resp. get_value() (the accessor names differ between the models)".into()];
    std::process::exit(rep.finish());
}
