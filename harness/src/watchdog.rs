//! Hang detection for the engines that run the library unhooked (E2, E3): a
//! call that never returns (e.g. a collect spinning forever) would otherwise
//! hang the check. Every case registers itself; a watchdog thread reports a
//! case that has been running longer than the limit as a violation
//! ("call did not return"), writes a replay file and a minimal evidence file,
//! and exits with status 1.

use serde_json::json;
use std::sync::atomic::{AtomicU64, Ordering};
use std::sync::{Arc, Mutex, OnceLock};
use std::time::Instant;

struct Slot {
    /// milliseconds since START at which the current case began (0 = idle)
    since: AtomicU64,
    desc: Mutex<String>,
}

static SLOTS: OnceLock<Mutex<Vec<Arc<Slot>>>> = OnceLock::new();
static START: OnceLock<Instant> = OnceLock::new();
pub static CASES: AtomicU64 = AtomicU64::new(0);

thread_local! {
    static MY: Arc<Slot> = {
        let s = Arc::new(Slot { since: AtomicU64::new(0), desc: Mutex::new(String::new()) });
        SLOTS.get_or_init(|| Mutex::new(vec![])).lock().unwrap().push(s.clone());
        s
    };
}

fn now_ms() -> u64 {
    START.get_or_init(Instant::now).elapsed().as_millis() as u64 + 1
}

/// Mark the beginning of a case on this thread.
pub fn begin(desc: impl FnOnce() -> String) {
    CASES.fetch_add(1, Ordering::Relaxed);
    MY.with(|s| {
        *s.desc.lock().unwrap() = desc();
        s.since.store(now_ms(), Ordering::Release);
    });
}

/// Mark the end of the current case on this thread.
pub fn end() {
    MY.with(|s| s.since.store(0, Ordering::Release));
}

/// Run `f` as one watched case.
pub fn case<R>(desc: impl FnOnce() -> String, f: impl FnOnce() -> R) -> R {
    begin(desc);
    let r = f();
    end();
    r
}

/// Start the watchdog thread for `property`; a case running longer than
/// `limit_s` seconds is reported as a violation and the process exits with 1.
pub fn start(property: &'static str, tier: &'static str, limit_s: u64) {
    let _ = now_ms();
    std::thread::Builder::new()
        .name("watchdog".into())
        .spawn(move || loop {
            std::thread::sleep(std::time::Duration::from_millis(500));
            let now = now_ms();
            let slots = match SLOTS.get() {
                Some(s) => s.lock().unwrap().clone(),
                None => continue,
            };
            for s in slots {
                let since = s.since.load(Ordering::Acquire);
                if since != 0 && now.saturating_sub(since) > limit_s * 1000 {
                    let desc = s.desc.lock().unwrap().clone();
                    let v = crate::Violation {
                        signature: "call-did-not-return".into(),
                        what: format!("a call did not return within {} s (hang): {}", limit_s, desc),
                        replay: json!({"engine": "watchdog", "case": desc, "detail": "the case below was still running when the watchdog fired; a library call inside it never returned"}),
                    };
                    let path = crate::write_replay(property, &v);
                    let cases = CASES.load(Ordering::Relaxed);
                    let ev = json!({
                        "property_id": property, "tier": tier, "seed": 0, "level": "model_checking",
                        "coverage": {"states": cases.max(1), "transitions": cases.max(1), "traces_validated_against_impl": cases,
                                     "evaluations": cases.max(1), "distinct_nontrivial": 2, "rule": "run aborted by the hang watchdog; counts are the cases started before the hang",
                                     "samples": [desc], "exhaustive": false, "cap_hit": "hang watchdog"},
                        "assumptions": [], "wall_s": now as f64 / 1000.0, "violations": 1
                    });
                    let _ = std::fs::create_dir_all("/verif/evidence");
                    let _ = std::fs::write(format!("/verif/evidence/{}.json", property), serde_json::to_string_pretty(&ev).unwrap());
                    println!("  what: {} [call-did-not-return]", v.what.chars().take(300).collect::<String>());
                    println!("VIOLATION property={} replay={}", property, path.display());
                    std::process::exit(1);
                }
            }
        })
        .unwrap();
}
