//! Constructors of every metric kind behind one enum, the name predicates of
//! the data model and the string pool shared by C09 and C17.

use crate::combi;
use prometheus::core::{Collector, Desc};
use prometheus::{
    Counter, CounterVec, Gauge, GaugeVec, Histogram, HistogramOpts, HistogramVec, IntCounter, IntCounterVec, IntGauge,
    IntGaugeVec, Opts, PullingGauge,
};
use std::collections::HashMap;

pub const CHARS: [char; 12] = ['a', 'Z', '_', ':', '0', '9', '\u{e9}', '\u{663}', '\u{ff21}', ' ', '-', '$'];

pub fn valid_metric_name(s: &str) -> bool {
    let b = s.as_bytes();
    !b.is_empty()
        && (b[0].is_ascii_alphabetic() || b[0] == b'_' || b[0] == b':')
        && b.iter().all(|c| c.is_ascii_alphanumeric() || *c == b'_' || *c == b':')
}

pub fn valid_label_name(s: &str) -> bool {
    let b = s.as_bytes();
    !b.is_empty() && (b[0].is_ascii_alphabetic() || b[0] == b'_') && b.iter().all(|c| c.is_ascii_alphanumeric() || *c == b'_')
}

pub fn strings(max_len: usize) -> Vec<String> {
    combi::sequences_upto(CHARS.len(), max_len)
        .map(|ix| ix.iter().map(|&i| CHARS[i]).collect())
        .collect()
}

#[derive(Clone, Copy, Debug, PartialEq, Eq)]
pub enum Ctor {
    Counter,
    IntCounter,
    Gauge,
    IntGauge,
    Histogram,
    CounterVec,
    IntCounterVec,
    GaugeVec,
    IntGaugeVec,
    HistogramVec,
    PullingGauge,
    Desc,
}

pub const CTORS: [Ctor; 12] = [
    Ctor::Counter,
    Ctor::IntCounter,
    Ctor::Gauge,
    Ctor::IntGauge,
    Ctor::Histogram,
    Ctor::CounterVec,
    Ctor::IntCounterVec,
    Ctor::GaugeVec,
    Ctor::IntGaugeVec,
    Ctor::HistogramVec,
    Ctor::PullingGauge,
    Ctor::Desc,
];

impl Ctor {
    pub fn is_vec(self) -> bool {
        matches!(self, Ctor::CounterVec | Ctor::IntCounterVec | Ctor::GaugeVec | Ctor::IntGaugeVec | Ctor::HistogramVec)
    }
    pub fn is_hist(self) -> bool {
        matches!(self, Ctor::Histogram | Ctor::HistogramVec)
    }
}

pub struct DescOnly(pub Desc);
impl Collector for DescOnly {
    fn desc(&self) -> Vec<&Desc> {
        vec![&self.0]
    }
    fn collect(&self) -> Vec<prometheus::proto::MetricFamily> {
        vec![]
    }
}

#[derive(Clone, Debug, Default)]
pub struct Spec {
    pub ns: String,
    pub sub: String,
    pub name: String,
    pub help: String,
    pub consts: Vec<(String, String)>,
    pub vars: Vec<String>,
}

pub fn fq(spec: &Spec) -> String {
    if spec.name.is_empty() {
        return String::new();
    }
    [&spec.ns, &spec.sub, &spec.name]
        .iter()
        .filter(|s| !s.is_empty())
        .map(|s| s.as_str())
        .collect::<Vec<_>>()
        .join("_")
}

/// Build through the real constructor; on success also give the metric one sample.
pub fn build(c: Ctor, spec: &Spec) -> Result<Box<dyn Collector>, String> {
    let mut opts = Opts::new(spec.name.clone(), spec.help.clone())
        .namespace(spec.ns.clone())
        .subsystem(spec.sub.clone());
    for (k, v) in &spec.consts {
        opts = opts.const_label(k.clone(), v.clone());
    }
    if !c.is_vec() {
        // single metrics: variable labels in the options (a cardinality error by contract)
        opts = opts.variable_labels(spec.vars.clone());
    }
    let vars: Vec<&str> = spec.vars.iter().map(|s| s.as_str()).collect();
    let vals: Vec<&str> = spec.vars.iter().map(|_| "v").collect();
    let e = |e: prometheus::Error| e.to_string();
    Ok(match c {
        Ctor::Counter => Box::new(Counter::with_opts(opts).map_err(e)?),
        Ctor::IntCounter => Box::new(IntCounter::with_opts(opts).map_err(e)?),
        Ctor::Gauge => Box::new(Gauge::with_opts(opts).map_err(e)?),
        Ctor::IntGauge => Box::new(IntGauge::with_opts(opts).map_err(e)?),
        Ctor::Histogram => Box::new(Histogram::with_opts(HistogramOpts::from(opts)).map_err(e)?),
        Ctor::CounterVec => {
            let v = CounterVec::new(opts, &vars).map_err(e)?;
            v.get_metric_with_label_values(&vals).map_err(|x| format!("CHILD:{}", x))?.inc();
            Box::new(v)
        }
        Ctor::IntCounterVec => {
            let v = IntCounterVec::new(opts, &vars).map_err(e)?;
            v.get_metric_with_label_values(&vals).map_err(|x| format!("CHILD:{}", x))?.inc();
            Box::new(v)
        }
        Ctor::GaugeVec => {
            let v = GaugeVec::new(opts, &vars).map_err(e)?;
            v.get_metric_with_label_values(&vals).map_err(|x| format!("CHILD:{}", x))?.inc();
            Box::new(v)
        }
        Ctor::IntGaugeVec => {
            let v = IntGaugeVec::new(opts, &vars).map_err(e)?;
            v.get_metric_with_label_values(&vals).map_err(|x| format!("CHILD:{}", x))?.inc();
            Box::new(v)
        }
        Ctor::HistogramVec => {
            let v = HistogramVec::new(HistogramOpts::from(opts), &vars).map_err(e)?;
            v.get_metric_with_label_values(&vals).map_err(|x| format!("CHILD:{}", x))?.observe(1.0);
            Box::new(v)
        }
        Ctor::PullingGauge => Box::new(PullingGauge::new(fq(spec), spec.help.clone(), Box::new(|| 1.0)).map_err(e)?),
        Ctor::Desc => {
            let consts: HashMap<String, String> = spec.consts.iter().cloned().collect();
            Box::new(DescOnly(Desc::new(fq(spec), spec.help.clone(), spec.vars.clone(), consts).map_err(e)?))
        }
    })
}

