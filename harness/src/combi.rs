//! Small exhaustive-enumeration helpers (odometers, permutations, subsets).

/// All sequences of length `len` over `0..base` (odometer order, first index slowest).
pub fn sequences(base: usize, len: usize) -> impl Iterator<Item = Vec<usize>> {
    let total = if len == 0 { 1 } else { base.checked_pow(len as u32).unwrap_or(0) };
    (0..total).map(move |mut n| {
        let mut v = vec![0; len];
        for i in (0..len).rev() {
            v[i] = n % base.max(1);
            n /= base.max(1);
        }
        v
    })
}

/// All sequences with length in `0..=max_len` over `0..base`, shortest first.
pub fn sequences_upto(base: usize, max_len: usize) -> impl Iterator<Item = Vec<usize>> {
    (0..=max_len).flat_map(move |l| sequences(base, l))
}

/// All permutations of `0..n` in lexicographic order.
pub fn permutations(n: usize) -> Vec<Vec<usize>> {
    fn rec(cur: &mut Vec<usize>, used: &mut Vec<bool>, n: usize, out: &mut Vec<Vec<usize>>) {
        if cur.len() == n {
            out.push(cur.clone());
            return;
        }
        for i in 0..n {
            if !used[i] {
                used[i] = true;
                cur.push(i);
                rec(cur, used, n, out);
                cur.pop();
                used[i] = false;
            }
        }
    }
    let mut out = vec![];
    rec(&mut vec![], &mut vec![false; n], n, &mut out);
    out
}

/// All subsets of `0..n` with size in `min..=max`, by increasing size.
pub fn subsets(n: usize, min: usize, max: usize) -> Vec<Vec<usize>> {
    let mut out: Vec<Vec<usize>> = (0u32..(1u32 << n))
        .map(|m| (0..n).filter(|i| m & (1 << i) != 0).collect::<Vec<_>>())
        .filter(|s| s.len() >= min && s.len() <= max)
        .collect();
    out.sort_by_key(|s| (s.len(), s.clone()));
    out
}

/// Cartesian product of index ranges given by `dims`.
pub fn product(dims: &[usize]) -> impl Iterator<Item = Vec<usize>> + '_ {
    let total: usize = dims.iter().product();
    (0..total).map(move |mut n| {
        let mut v = vec![0; dims.len()];
        for i in (0..dims.len()).rev() {
            v[i] = n % dims[i];
            n /= dims[i];
        }
        v
    })
}

/// Build a fresh std `HashMap` (new `RandomState` each time) holding `pairs`
/// whose iteration order equals `order` (a permutation of the pair indices).
/// Rejection sampling is used only to *realise* a prescribed order; the caller
/// enumerates all orders. Returns `None` after `max_tries` (machinery failure).
pub fn hashmap_with_order<K: Clone + Eq + std::hash::Hash, V: Clone>(
    pairs: &[(K, V)],
    order: &[usize],
    max_tries: usize,
) -> Option<std::collections::HashMap<K, V>> {
    for _ in 0..max_tries {
        let mut m = std::collections::HashMap::new();
        for (k, v) in pairs {
            m.insert(k.clone(), v.clone());
        }
        let ok = m
            .keys()
            .zip(order.iter())
            .all(|(k, &i)| *k == pairs[i].0);
        if ok {
            return Some(m);
        }
    }
    None
}
