//! E1 drivers over one shared counter / gauge cell (C01, C11): thread programs
//! over the cell's operations, linearizability against a sequential cell.

use crate::vsched::*;
use prometheus::core::Collector;
use prometheus::{Counter, CounterVec, Gauge, GaugeVec, IntCounter, IntCounterVec, IntGauge, IntGaugeVec, Opts};
use std::collections::HashMap;

#[derive(Clone, Copy, Debug, PartialEq, serde::Serialize, serde::Deserialize)]
pub enum CellOp {
    /// counter inc_by / gauge add (power-of-two amount)
    Add(f64),
    /// `inc()`
    Inc,
    Dec,
    Sub(f64),
    Set(f64),
    Get,
    Reset,
    /// read through Collector::collect
    Collect,
    /// local counter: inc_by(amount) then flush()
    LocalFlush(f64),
    /// local counter: inc_by(a); inc_by(b); flush() — one batch
    LocalBatch(f64, f64),
    /// local counter: inc_by(a); clone it; flush both — the clone must start empty
    LocalCloneFlush(f64),
    /// vector flavours: remove the unrelated child "other" (created in setup); no effect on the cell itself
    RemoveOther,
}

#[derive(Clone, Copy, Debug, PartialEq, Eq, serde::Serialize, serde::Deserialize)]
pub enum Flavour {
    Counter,
    IntCounter,
    CounterVecChild,
    IntCounterVecChild,
    Gauge,
    IntGauge,
    GaugeVecChild,
    IntGaugeVecChild,
}

impl Flavour {
    pub fn is_gauge(self) -> bool {
        matches!(self, Flavour::Gauge | Flavour::IntGauge | Flavour::GaugeVecChild | Flavour::IntGaugeVecChild)
    }
}

pub enum Cell {
    C(Counter),
    IC(IntCounter),
    CV(CounterVec),
    ICV(IntCounterVec),
    G(Gauge),
    IG(IntGauge),
    GV(GaugeVec),
    IGV(IntGaugeVec),
}

fn collected_value(mfs: Vec<prometheus::proto::MetricFamily>, gauge: bool) -> f64 {
    let m = &mfs[0].get_metric()[0];
    if gauge {
        m.get_gauge().value()
    } else {
        m.get_counter().value()
    }
}

impl Cell {
    /// A second handle to the same metric (what `clone()` gives a user).
    pub fn clone_handle(&self) -> Cell {
        match self {
            Cell::C(c) => Cell::C(c.clone()),
            Cell::IC(c) => Cell::IC(c.clone()),
            Cell::CV(c) => Cell::CV(c.clone()),
            Cell::ICV(c) => Cell::ICV(c.clone()),
            Cell::G(c) => Cell::G(c.clone()),
            Cell::IG(c) => Cell::IG(c.clone()),
            Cell::GV(c) => Cell::GV(c.clone()),
            Cell::IGV(c) => Cell::IGV(c.clone()),
        }
    }

    pub fn new(f: Flavour) -> Cell {
        let o = || Opts::new("c", "h");
        match f {
            Flavour::Counter => Cell::C(Counter::with_opts(o()).unwrap()),
            Flavour::IntCounter => Cell::IC(IntCounter::with_opts(o()).unwrap()),
            Flavour::CounterVecChild => {
                let v = CounterVec::new(o(), &["l"]).unwrap();
                v.with_label_values(&["other"]);
                Cell::CV(v)
            }
            Flavour::IntCounterVecChild => {
                let v = IntCounterVec::new(o(), &["l"]).unwrap();
                v.with_label_values(&["other"]);
                Cell::ICV(v)
            }
            Flavour::Gauge => Cell::G(Gauge::with_opts(o()).unwrap()),
            Flavour::IntGauge => Cell::IG(IntGauge::with_opts(o()).unwrap()),
            Flavour::GaugeVecChild => {
                let v = GaugeVec::new(o(), &["l"]).unwrap();
                v.with_label_values(&["other"]);
                Cell::GV(v)
            }
            Flavour::IntGaugeVecChild => {
                let v = IntGaugeVec::new(o(), &["l"]).unwrap();
                v.with_label_values(&["other"]);
                Cell::IGV(v)
            }
        }
    }

    /// Perform `op` (each vector flavour fetches its child with with_label_values first).
    pub fn apply(&self, op: CellOp) -> Val {
        if op == CellOp::RemoveOther {
            match self {
                Cell::CV(v) => {
                    let _ = v.remove_label_values(&["other"]);
                }
                Cell::ICV(v) => {
                    let _ = v.remove_label_values(&["other"]);
                }
                Cell::GV(v) => {
                    let _ = v.remove_label_values(&["other"]);
                }
                Cell::IGV(v) => {
                    let _ = v.remove_label_values(&["other"]);
                }
                _ => {}
            }
            return Val::Unit;
        }
        macro_rules! counter_ops {
            ($c:expr, $conv:expr, $back:expr) => {{
                let c = $c;
                match op {
                    CellOp::Add(d) => {
                        c.inc_by($conv(d));
                        Val::Unit
                    }
                    CellOp::Inc => {
                        c.inc();
                        Val::Unit
                    }
                    CellOp::Get => Val::F($back(c.get())),
                    CellOp::Reset => {
                        c.reset();
                        Val::Unit
                    }
                    CellOp::Collect => Val::F(collected_value(c.collect(), false)),
                    CellOp::LocalFlush(d) => {
                        let l = c.local();
                        l.inc_by($conv(d));
                        l.flush();
                        Val::Unit
                    }
                    CellOp::LocalBatch(a, b) => {
                        let l = c.local();
                        l.inc_by($conv(a));
                        l.inc_by($conv(b));
                        l.flush();
                        Val::Unit
                    }
                    CellOp::LocalCloneFlush(a) => {
                        let l = c.local();
                        l.inc_by($conv(a));
                        let l2 = l.clone();
                        l2.flush();
                        l.flush();
                        l2.flush();
                        Val::Unit
                    }
                    _ => panic!("not a counter operation"),
                }
            }};
        }
        macro_rules! gauge_ops {
            ($c:expr, $conv:expr, $back:expr) => {{
                let c = $c;
                match op {
                    CellOp::Add(d) => {
                        c.add($conv(d));
                        Val::Unit
                    }
                    CellOp::Sub(d) => {
                        c.sub($conv(d));
                        Val::Unit
                    }
                    CellOp::Inc => {
                        c.inc();
                        Val::Unit
                    }
                    CellOp::Dec => {
                        c.dec();
                        Val::Unit
                    }
                    CellOp::Set(v) => {
                        c.set($conv(v));
                        Val::Unit
                    }
                    CellOp::Get => Val::F($back(c.get())),
                    CellOp::Collect => Val::F(collected_value(c.collect(), true)),
                    _ => panic!("not a gauge operation"),
                }
            }};
        }
        let id = |x: f64| x;
        match self {
            Cell::C(c) => counter_ops!(c, id, id),
            Cell::IC(c) => counter_ops!(c, |x: f64| x as u64, |x: u64| x as f64),
            Cell::CV(v) => counter_ops!(&v.with_label_values(&["k"]), id, id),
            Cell::ICV(v) => counter_ops!(&v.with_label_values(&["k"]), |x: f64| x as u64, |x: u64| x as f64),
            Cell::G(c) => gauge_ops!(c, id, id),
            Cell::IG(c) => gauge_ops!(c, |x: f64| x as i64, |x: i64| x as f64),
            Cell::GV(v) => gauge_ops!(&v.with_label_values(&["k"]), id, id),
            Cell::IGV(v) => gauge_ops!(&v.with_label_values(&["k"]), |x: f64| x as i64, |x: i64| x as f64),
        }
    }

    /// Value seen by a quiescent read through the vector's / cell's collect().
    pub fn final_collect(&self) -> Option<f64> {
        let (mfs, g) = match self {
            Cell::C(c) => (c.collect(), false),
            Cell::IC(c) => (c.collect(), false),
            Cell::CV(c) => (c.collect(), false),
            Cell::ICV(c) => (c.collect(), false),
            Cell::G(c) => (c.collect(), true),
            Cell::IG(c) => (c.collect(), true),
            Cell::GV(c) => (c.collect(), true),
            Cell::IGV(c) => (c.collect(), true),
        };
        if mfs.len() != 1 {
            return None;
        }
        // vector flavours may still hold the unrelated child "other"
        let mine: Vec<&prometheus::proto::Metric> = mfs[0].get_metric().iter().filter(|m| m.get_label().iter().all(|l| l.value() != "other")).collect();
        if mine.len() != 1 {
            return None;
        }
        Some(if g { mine[0].get_gauge().value() } else { mine[0].get_counter().value() })
    }
}

pub fn op_name(op: CellOp) -> (&'static str, Val) {
    match op {
        CellOp::Add(d) => ("add", Val::F(d)),
        CellOp::Inc => ("add", Val::F(1.0)),
        CellOp::Dec => ("add", Val::F(-1.0)),
        CellOp::Sub(d) => ("add", Val::F(-d)),
        CellOp::Set(v) => ("set", Val::F(v)),
        CellOp::Get => ("get", Val::Unit),
        CellOp::Reset => ("set", Val::F(0.0)),
        CellOp::Collect => ("get", Val::Unit),
        CellOp::LocalFlush(d) => ("add", Val::F(d)),
        CellOp::LocalBatch(a, b) => ("add", Val::F(a + b)),
        CellOp::LocalCloneFlush(a) => ("add", Val::F(a)),
        CellOp::RemoveOther => ("add", Val::F(0.0)),
    }
}

/// Sequential cell: state = value bits.
pub struct CellSpec {
    pub init: f64,
}

impl SeqSpec for CellSpec {
    type State = u64;
    fn init(&self) -> u64 {
        self.init.to_bits()
    }
    fn apply(&self, st: &u64, call: &Call) -> Option<u64> {
        let v = f64::from_bits(*st);
        match call.name.as_str() {
            "add" => Some((v + call.arg.f()).to_bits()),
            "set" => Some(call.arg.f().to_bits()),
            "get" => {
                if call.ret.f() == v {
                    Some(*st)
                } else {
                    None
                }
            }
            _ => None,
        }
    }
}

pub struct CellDriver {
    /// every thread works through its own clone of the handle (instead of sharing one by reference)
    pub cloned: bool,
    pub flavour: Flavour,
    /// operations applied sequentially in setup (non-initial start states)
    pub prelude: Vec<CellOp>,
    pub programs: Vec<Vec<CellOp>>,
}

impl Driver for CellDriver {
    type Shared = Cell;
    fn name(&self) -> String {
        format!("{:?}{} pre{:?} {:?}", self.flavour, if self.cloned { " (cloned handles)" } else { "" }, self.prelude, self.programs)
    }
    fn threads(&self) -> usize {
        self.programs.len()
    }
    fn setup(&self) -> Cell {
        let c = Cell::new(self.flavour);
        for op in &self.prelude {
            c.apply(*op);
        }
        c
    }
    fn body(&self, t: usize, sh: &Cell, rec: &Recorder) {
        let own;
        let sh = if self.cloned {
            own = sh.clone_handle();
            &own
        } else {
            sh
        };
        for op in &self.programs[t] {
            let (name, arg) = op_name(*op);
            rec.call(name, arg, || sh.apply(*op));
        }
    }
    fn check(&self, sh: &Cell, x: &Execution) -> Result<String, (String, String)> {
        let mut init = 0.0;
        for op in &self.prelude {
            match op_name(*op) {
                ("add", a) => init += a.f(),
                ("set", a) => init = a.f(),
                _ => {}
            }
        }
        let calls = x.calls.clone();
        // quiescent reads (get, collect) were made by the epilogue under the scheduler
        let fin = match calls.iter().filter(|c| c.thread == 99).next() {
            Some(c) => c.ret.clone(),
            None => return Err((format!("collect-shape:{:?}", self.flavour), "no quiescent read recorded".into())),
        };
        if calls.iter().filter(|c| c.thread == 99).any(|c| matches!(c.ret, Val::S(_))) {
            return Err((format!("collect-shape:{:?}", self.flavour), "final collect did not return exactly one sample".into()));
        }
        let kind = if self.flavour.is_gauge() { "gauge" } else { "counter" };
        match linearizable(&CellSpec { init }, &calls) {
            Some(_) => {
                let reads: Vec<String> = calls.iter().filter(|c| c.name == "get").map(|c| format!("{}", c.ret.f())).collect();
                // outcome class: values read + real-time relation signature
                let mut rt = String::new();
                for a in &x.calls {
                    for b in &x.calls {
                        if a.thread != b.thread && a.precedes(b) {
                            rt.push('<');
                        } else if a.thread != b.thread {
                            rt.push('.');
                        }
                    }
                }
                Ok(format!("{:?}|{:?}|{}", self.flavour, reads, rt))
            }
            None => {
                // classify for the signature
                let has_set = calls.iter().any(|c| c.name == "set");
                let lost = !has_set && fin.f() != init + calls.iter().filter(|c| c.name == "add").map(|c| c.arg.f()).sum::<f64>();
                let class = if lost { "lost-or-duplicated-update" } else { "not-linearizable" };
                Err((
                    format!("{}:{}:{:?}", kind, class, self.flavour),
                    format!("history not linearizable w.r.t. a sequential {} starting at {}: {:?}", kind, init, calls.iter().map(|c| c.show()).collect::<Vec<_>>()),
                ))
            }
        }
    }
    fn cell_names(&self, _sh: &Cell) -> HashMap<usize, String> {
        HashMap::new()
    }
    fn epilogue(&self, sh: &Cell, rec: &Recorder) {
        rec.call("get", Val::Unit, || sh.apply(CellOp::Get));
        rec.call("get", Val::Unit, || match sh.final_collect() {
            Some(v) => Val::F(v),
            None => Val::S("collect shape".into()),
        });
    }
    fn spec(&self) -> serde_json::Value {
        serde_json::json!({"kind": "cell", "cloned": self.cloned, "flavour": self.flavour, "prelude": self.prelude, "programs": self.programs})
    }
}

impl CellDriver {
    pub fn from_spec(v: &serde_json::Value) -> Option<CellDriver> {
        Some(CellDriver {
            cloned: v["cloned"].as_bool().unwrap_or(false),
            flavour: serde_json::from_value(v["flavour"].clone()).ok()?,
            prelude: serde_json::from_value(v["prelude"].clone()).ok()?,
            programs: serde_json::from_value(v["programs"].clone()).ok()?,
        })
    }
}


// ------------------------------------------------- exact integer gauge driver

/// Integer gauge with exact i64 arithmetic (used next to the ends of the range,
/// where the f64-valued driver above cannot represent the values).
#[derive(Clone, Copy, Debug, PartialEq, serde::Serialize, serde::Deserialize)]
pub enum IOp {
    Add(i64),
    Sub(i64),
    Inc,
    Dec,
    Set(i64),
    Get,
}

pub struct IntGaugeDriver {
    pub vec_child: bool,
    pub start: i64,
    pub programs: Vec<Vec<IOp>>,
}

pub enum IntCell {
    G(IntGauge),
    V(IntGaugeVec),
}

impl IntCell {
    fn with<R>(&self, f: impl FnOnce(&IntGauge) -> R) -> R {
        match self {
            IntCell::G(g) => f(g),
            IntCell::V(v) => f(&v.with_label_values(&["k"])),
        }
    }
}

pub struct IntSpec {
    pub init: i64,
}

impl SeqSpec for IntSpec {
    type State = i64;
    fn init(&self) -> i64 {
        self.init
    }
    fn apply(&self, st: &i64, call: &Call) -> Option<i64> {
        let a = match call.arg {
            Val::I(a) => a,
            _ => 0,
        };
        match call.name.as_str() {
            "add" => Some(st.wrapping_add(a)),
            "set" => Some(a),
            "get" => {
                if call.ret == Val::I(*st) {
                    Some(*st)
                } else {
                    None
                }
            }
            _ => None,
        }
    }
}

impl Driver for IntGaugeDriver {
    type Shared = IntCell;
    fn name(&self) -> String {
        format!("IntGauge{} start {} {:?}", if self.vec_child { "VecChild" } else { "" }, self.start, self.programs)
    }
    fn threads(&self) -> usize {
        self.programs.len()
    }
    fn setup(&self) -> IntCell {
        let c = if self.vec_child { IntCell::V(IntGaugeVec::new(Opts::new("g", "h"), &["l"]).unwrap()) } else { IntCell::G(IntGauge::new("g", "h").unwrap()) };
        c.with(|g| g.set(self.start));
        c
    }
    fn body(&self, t: usize, sh: &IntCell, rec: &Recorder) {
        for op in &self.programs[t] {
            match *op {
                IOp::Add(d) => rec.call("add", Val::I(d), || {
                    sh.with(|g| g.add(d));
                    Val::Unit
                }),
                IOp::Sub(d) => rec.call("add", Val::I(d.wrapping_neg()), || {
                    sh.with(|g| g.sub(d));
                    Val::Unit
                }),
                IOp::Inc => rec.call("add", Val::I(1), || {
                    sh.with(|g| g.inc());
                    Val::Unit
                }),
                IOp::Dec => rec.call("add", Val::I(-1), || {
                    sh.with(|g| g.dec());
                    Val::Unit
                }),
                IOp::Set(v) => rec.call("set", Val::I(v), || {
                    sh.with(|g| g.set(v));
                    Val::Unit
                }),
                IOp::Get => rec.call("get", Val::Unit, || Val::I(sh.with(|g| g.get()))),
            };
        }
    }
    fn epilogue(&self, sh: &IntCell, rec: &Recorder) {
        rec.call("get", Val::Unit, || Val::I(sh.with(|g| g.get())));
    }
    fn check(&self, _sh: &IntCell, x: &Execution) -> Result<String, (String, String)> {
        match linearizable(&IntSpec { init: self.start }, &x.calls) {
            Some(_) => Ok(format!("int|{:?}", x.calls.iter().filter(|c| c.name == "get").map(|c| format!("{:?}", c.ret)).collect::<Vec<_>>())),
            None => Err((
                format!("gauge:not-linearizable-at-range-end:IntGauge{}", if self.vec_child { "VecChild" } else { "" }),
                format!("history not linearizable w.r.t. a sequential wrapping i64 gauge starting at {}: {:?}", self.start, x.calls.iter().map(|c| c.show()).collect::<Vec<_>>()),
            )),
        }
    }
    fn spec(&self) -> serde_json::Value {
        serde_json::json!({"kind": "intgauge", "vec_child": self.vec_child, "start": self.start, "programs": self.programs})
    }
}

impl IntGaugeDriver {
    pub fn from_spec(v: &serde_json::Value) -> Option<IntGaugeDriver> {
        Some(IntGaugeDriver { vec_child: v["vec_child"].as_bool()?, start: v["start"].as_i64()?, programs: serde_json::from_value(v["programs"].clone()).ok()? })
    }
}
