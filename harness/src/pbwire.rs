//! Independent protobuf wire decoder (varint, fixed64, length-delimited) whose
//! field tables are read at run time from /repo/proto/proto_model.proto.
//! Unknown fields, wrong wire types, repeated singular fields, trailing bytes
//! and non-UTF-8 strings are errors.

use crate::refmodel::*;
use std::collections::BTreeMap;

#[derive(Clone, Debug, PartialEq)]
pub enum FType {
    Double,
    Uint64,
    Int64,
    Str,
    Enum(String),
    Msg(String),
}

#[derive(Clone, Debug)]
pub struct Field {
    pub name: String,
    pub ty: FType,
    pub repeated: bool,
}

#[derive(Default, Debug)]
pub struct Schema {
    pub messages: BTreeMap<String, BTreeMap<u64, Field>>,
    pub enums: BTreeMap<String, BTreeMap<i64, String>>,
}

/// Minimal .proto (proto2) reader: `message X { optional|repeated T name = N; }`, `enum E { A = 0; }`.
pub fn load_schema(path: &str) -> Result<Schema, String> {
    let text = std::fs::read_to_string(path).map_err(|e| format!("{}: {}", path, e))?;
    let mut schema = Schema::default();
    // strip comments
    let clean: String = text.lines().map(|l| l.split("//").next().unwrap_or("")).collect::<Vec<_>>().join("\n");
    let toks: Vec<String> = clean
        .replace('{', " { ")
        .replace('}', " } ")
        .replace(';', " ; ")
        .replace('=', " = ")
        .split_whitespace()
        .map(|s| s.to_string())
        .collect();
    let mut i = 0;
    let mut raw_fields: Vec<(String, u64, String, String, bool)> = vec![];
    while i < toks.len() {
        match toks[i].as_str() {
            "message" => {
                let name = toks[i + 1].clone();
                schema.messages.entry(name.clone()).or_default();
                i += 3; // name {
                while toks[i] != "}" {
                    let label = toks[i].clone();
                    let ty = toks[i + 1].clone();
                    let fname = toks[i + 2].clone();
                    if toks[i + 3] != "=" {
                        return Err(format!("unexpected token {:?} in message {}", toks[i + 3], name));
                    }
                    let num: u64 = toks[i + 4].parse().map_err(|_| format!("bad field number {:?}", toks[i + 4]))?;
                    if toks[i + 5] != ";" {
                        return Err("field options are not supported".into());
                    }
                    raw_fields.push((name.clone(), num, fname, ty, label == "repeated"));
                    i += 6;
                }
                i += 1;
            }
            "enum" => {
                let name = toks[i + 1].clone();
                let e = schema.enums.entry(name).or_default();
                i += 3;
                while toks[i] != "}" {
                    let v: i64 = toks[i + 2].parse().map_err(|_| "bad enum value".to_string())?;
                    e.insert(v, toks[i].clone());
                    i += 4;
                }
                i += 1;
            }
            _ => {
                // syntax / package / option statements
                while i < toks.len() && toks[i] != ";" {
                    i += 1;
                }
                i += 1;
            }
        }
    }
    for (msg, num, fname, ty, rep) in raw_fields {
        let ft = match ty.as_str() {
            "double" => FType::Double,
            "uint64" => FType::Uint64,
            "int64" => FType::Int64,
            "string" => FType::Str,
            t if schema.enums.contains_key(t) => FType::Enum(t.to_string()),
            t if schema.messages.contains_key(t) => FType::Msg(t.to_string()),
            t => return Err(format!("unsupported field type {}", t)),
        };
        schema.messages.get_mut(&msg).unwrap().insert(num, Field { name: fname, ty: ft, repeated: rep });
    }
    Ok(schema)
}

#[derive(Clone, Debug, PartialEq)]
pub enum PVal {
    F(f64),
    U(u64),
    I(i64),
    S(String),
    E(i64),
    M(PMsg),
}

pub type PMsg = Vec<(String, PVal)>;

fn varint(b: &[u8], pos: &mut usize) -> Result<u64, String> {
    let mut v: u64 = 0;
    let mut shift = 0;
    loop {
        if *pos >= b.len() {
            return Err("truncated varint".into());
        }
        let byte = b[*pos];
        *pos += 1;
        if shift == 63 && byte > 1 {
            return Err("varint overflows 64 bits".into());
        }
        v |= ((byte & 0x7f) as u64) << shift;
        if byte & 0x80 == 0 {
            return Ok(v);
        }
        shift += 7;
        if shift > 63 {
            return Err("varint too long".into());
        }
    }
}

pub fn decode_message(schema: &Schema, msg: &str, b: &[u8]) -> Result<PMsg, String> {
    let fields = schema.messages.get(msg).ok_or(format!("unknown message {}", msg))?;
    let mut out: PMsg = vec![];
    let mut pos = 0;
    while pos < b.len() {
        let key = varint(b, &mut pos)?;
        let (num, wt) = (key >> 3, key & 7);
        let f = fields.get(&num).ok_or(format!("{}: unknown field number {}", msg, num))?;
        if !f.repeated && out.iter().any(|(n, _)| *n == f.name) {
            return Err(format!("{}: singular field {} appears twice", msg, f.name));
        }
        let val = match (&f.ty, wt) {
            (FType::Double, 1) => {
                if pos + 8 > b.len() {
                    return Err(format!("{}.{}: truncated fixed64", msg, f.name));
                }
                let mut a = [0u8; 8];
                a.copy_from_slice(&b[pos..pos + 8]);
                pos += 8;
                PVal::F(f64::from_bits(u64::from_le_bytes(a)))
            }
            (FType::Uint64, 0) => PVal::U(varint(b, &mut pos)?),
            (FType::Int64, 0) => PVal::I(varint(b, &mut pos)? as i64),
            (FType::Enum(e), 0) => {
                let v = varint(b, &mut pos)? as i64;
                if !schema.enums[e].contains_key(&v) {
                    return Err(format!("{}.{}: value {} is not a member of enum {}", msg, f.name, v, e));
                }
                PVal::E(v)
            }
            (FType::Str, 2) | (FType::Msg(_), 2) => {
                let len = varint(b, &mut pos)? as usize;
                if pos + len > b.len() {
                    return Err(format!("{}.{}: length {} exceeds the enclosing message", msg, f.name, len));
                }
                let body = &b[pos..pos + len];
                pos += len;
                match &f.ty {
                    FType::Str => PVal::S(String::from_utf8(body.to_vec()).map_err(|_| format!("{}.{}: not UTF-8", msg, f.name))?),
                    FType::Msg(m) => PVal::M(decode_message(schema, m, body)?),
                    _ => unreachable!(),
                }
            }
            (t, w) => return Err(format!("{}.{}: wire type {} does not fit {:?}", msg, f.name, w, t)),
        };
        out.push((f.name.clone(), val));
    }
    Ok(out)
}

/// Split a stream of varint-length-delimited MetricFamily messages.
pub fn decode_stream(schema: &Schema, b: &[u8]) -> Result<Vec<PMsg>, String> {
    let mut out = vec![];
    let mut pos = 0;
    while pos < b.len() {
        let len = varint(b, &mut pos)? as usize;
        if pos + len > b.len() {
            return Err(format!("family {}: length prefix {} exceeds the remaining {} bytes", out.len(), len, b.len() - pos));
        }
        out.push(decode_message(schema, "MetricFamily", &b[pos..pos + len]).map_err(|e| format!("family {}: {}", out.len(), e))?);
        pos += len;
    }
    Ok(out)
}

fn get<'a>(m: &'a PMsg, name: &str) -> Option<&'a PVal> {
    m.iter().find(|(n, _)| n == name).map(|(_, v)| v)
}
fn all<'a>(m: &'a PMsg, name: &str) -> Vec<&'a PVal> {
    m.iter().filter(|(n, _)| n == name).map(|(_, v)| v).collect()
}
fn f(v: Option<&PVal>) -> Option<f64> {
    match v {
        Some(PVal::F(x)) => Some(*x),
        _ => None,
    }
}
fn u(v: Option<&PVal>) -> Option<u64> {
    match v {
        Some(PVal::U(x)) => Some(*x),
        _ => None,
    }
}
fn s(v: Option<&PVal>) -> Option<String> {
    match v {
        Some(PVal::S(x)) => Some(x.clone()),
        _ => None,
    }
}
fn sub<'a>(v: Option<&'a PVal>) -> Option<&'a PMsg> {
    match v {
        Some(PVal::M(x)) => Some(x),
        _ => None,
    }
}

/// Decoded family in reference form; absent optional scalars read as their defaults
/// (absence of name/help/type is reported separately).
pub fn to_rfamily(m: &PMsg) -> Result<RFamily, String> {
    let typ = match get(m, "type") {
        Some(PVal::E(v)) => RType::from_number(*v as u64).ok_or("bad type")?,
        None => RType::Counter,
        _ => return Err("type is not an enum".into()),
    };
    let mut metrics = vec![];
    for mv in all(m, "metric") {
        let mm = sub(Some(mv)).ok_or("metric is not a message")?;
        let mut r = RMetric::default();
        for l in all(mm, "label") {
            let lm = sub(Some(l)).ok_or("label is not a message")?;
            r.labels.push((s(get(lm, "name")).unwrap_or_default(), s(get(lm, "value")).unwrap_or_default()));
        }
        r.ts = match get(mm, "timestamp_ms") {
            Some(PVal::I(t)) => Some(*t),
            _ => None,
        };
        r.counter = sub(get(mm, "counter")).map(|c| f(get(c, "value")).unwrap_or(0.0));
        r.gauge = sub(get(mm, "gauge")).map(|c| f(get(c, "value")).unwrap_or(0.0));
        r.untyped = sub(get(mm, "untyped")).map(|c| f(get(c, "value")).unwrap_or(0.0));
        r.histogram = sub(get(mm, "histogram")).map(|h| {
            (
                u(get(h, "sample_count")).unwrap_or(0),
                f(get(h, "sample_sum")).unwrap_or(0.0),
                all(h, "bucket").iter().filter_map(|b| sub(Some(b))).map(|b| (f(get(b, "upper_bound")).unwrap_or(0.0), u(get(b, "cumulative_count")).unwrap_or(0))).collect(),
            )
        });
        r.summary = sub(get(mm, "summary")).map(|h| {
            (
                u(get(h, "sample_count")).unwrap_or(0),
                f(get(h, "sample_sum")).unwrap_or(0.0),
                all(h, "quantile").iter().filter_map(|b| sub(Some(b))).map(|b| (f(get(b, "quantile")).unwrap_or(0.0), f(get(b, "value")).unwrap_or(0.0))).collect(),
            )
        });
        metrics.push(r);
    }
    Ok(RFamily { name: s(get(m, "name")).unwrap_or_default(), help: s(get(m, "help")).unwrap_or_default(), typ, metrics })
}
