//! (to be filled)
