//! Independent parser for the Prometheus text exposition format 0.0.4
//! (line-oriented on '\n' only), written from the format description, not
//! from the encoder. Returns families in the reference representation.

use crate::refmodel::*;

#[derive(Debug)]
pub struct ParseError(pub String);

fn err<T>(s: impl Into<String>) -> Result<T, ParseError> {
    Err(ParseError(s.into()))
}

fn is_name_start(c: u8) -> bool {
    c.is_ascii_alphabetic() || c == b'_' || c == b':'
}
fn is_name_char(c: u8) -> bool {
    is_name_start(c) || c.is_ascii_digit()
}

/// Float syntax of Go's strconv.ParseFloat as used by expfmt (decimal, exponent,
/// [+-]inf / infinity / nan, case-insensitive).
pub fn parse_float(tok: &str) -> Result<f64, ParseError> {
    let t = tok.to_ascii_lowercase();
    let (sign, body) = match t.as_bytes().first() {
        Some(b'+') => (1.0, &t[1..]),
        Some(b'-') => (-1.0, &t[1..]),
        _ => (1.0, &t[..]),
    };
    match body {
        "inf" | "infinity" => return Ok(sign * f64::INFINITY),
        "nan" => return Ok(f64::NAN),
        _ => {}
    }
    // decimal: digits [. digits] [e [+-] digits]  |  . digits [...]
    let b = body.as_bytes();
    let mut i = 0;
    let mut digits = 0;
    while i < b.len() && b[i].is_ascii_digit() {
        i += 1;
        digits += 1;
    }
    if i < b.len() && b[i] == b'.' {
        i += 1;
        while i < b.len() && b[i].is_ascii_digit() {
            i += 1;
            digits += 1;
        }
    }
    if digits == 0 {
        return err(format!("not a float: {:?}", tok));
    }
    if i < b.len() && b[i] == b'e' {
        i += 1;
        if i < b.len() && (b[i] == b'+' || b[i] == b'-') {
            i += 1;
        }
        let s = i;
        while i < b.len() && b[i].is_ascii_digit() {
            i += 1;
        }
        if i == s {
            return err(format!("not a float: {:?}", tok));
        }
    }
    if i != b.len() {
        return err(format!("not a float: {:?}", tok));
    }
    t.parse::<f64>().map_err(|_| ParseError(format!("not a float: {:?}", tok)))
}

fn unescape_help(s: &str) -> Result<String, ParseError> {
    let mut out = String::new();
    let mut it = s.chars();
    while let Some(c) = it.next() {
        if c == '\\' {
            match it.next() {
                Some('\\') => out.push('\\'),
                Some('n') => out.push('\n'),
                other => return err(format!("invalid escape \\{:?} in help", other)),
            }
        } else {
            out.push(c);
        }
    }
    Ok(out)
}

#[derive(Debug, Clone)]
pub struct Sample {
    pub name: String,
    pub labels: Vec<(String, String)>,
    pub value: f64,
    pub ts: Option<i64>,
}

/// Parse one sample line.
pub fn parse_sample(line: &str) -> Result<Sample, ParseError> {
    let b = line.as_bytes();
    let mut i = 0;
    if b.is_empty() || !is_name_start(b[0]) {
        return err(format!("sample line does not start with a metric name: {:?}", line));
    }
    while i < b.len() && is_name_char(b[i]) {
        i += 1;
    }
    let name = line[..i].to_string();
    let mut labels = vec![];
    if i < b.len() && b[i] == b'{' {
        i += 1;
        loop {
            if i < b.len() && b[i] == b'}' {
                i += 1;
                break;
            }
            let s = i;
            if i >= b.len() || !(b[i].is_ascii_alphabetic() || b[i] == b'_') {
                return err(format!("bad label name at byte {} of {:?}", i, line));
            }
            while i < b.len() && (b[i].is_ascii_alphanumeric() || b[i] == b'_') {
                i += 1;
            }
            let lname = line[s..i].to_string();
            if i + 1 >= b.len() || b[i] != b'=' || b[i + 1] != b'"' {
                return err(format!("expected =\" after label name in {:?}", line));
            }
            i += 2;
            let mut val = String::new();
            loop {
                if i >= b.len() {
                    return err(format!("unterminated label value in {:?}", line));
                }
                // operate on chars to keep multi-byte sequences intact
                let c = line[i..].chars().next().unwrap();
                i += c.len_utf8();
                match c {
                    '"' => break,
                    '\\' => {
                        let e = line[i..].chars().next();
                        match e {
                            Some('\\') => val.push('\\'),
                            Some('"') => val.push('"'),
                            Some('n') => val.push('\n'),
                            other => return err(format!("invalid escape \\{:?} in label value of {:?}", other, line)),
                        }
                        i += 1;
                    }
                    c => val.push(c),
                }
            }
            labels.push((lname, val));
            if i < b.len() && b[i] == b',' {
                i += 1;
            } else if i < b.len() && b[i] == b'}' {
                i += 1;
                break;
            } else {
                return err(format!("expected , or }} after label value in {:?}", line));
            }
        }
    }
    if i >= b.len() || b[i] != b' ' {
        return err(format!("expected space before the value in {:?}", line));
    }
    let rest: Vec<&str> = line[i..].split(' ').filter(|s| !s.is_empty()).collect();
    if rest.is_empty() || rest.len() > 2 {
        return err(format!("expected value [timestamp] in {:?}", line));
    }
    let value = parse_float(rest[0])?;
    let ts = match rest.get(1) {
        Some(t) => Some(t.parse::<i64>().map_err(|_| ParseError(format!("bad timestamp {:?}", t)))?),
        None => None,
    };
    Ok(Sample { name, labels, value, ts })
}

/// A family as the text shows it.
#[derive(Debug, Clone)]
pub struct TFamily {
    pub name: String,
    pub help: String,
    pub typ: Option<String>,
    pub samples: Vec<Sample>,
}

/// Split a document into families (a family starts at `# HELP` / `# TYPE`).
pub fn parse_document(text: &str) -> Result<Vec<TFamily>, ParseError> {
    if !text.is_empty() && !text.ends_with('\n') {
        return err("document does not end with a newline");
    }
    let mut fams: Vec<TFamily> = vec![];
    for line in text.split('\n') {
        if line.is_empty() {
            continue;
        }
        if let Some(rest) = line.strip_prefix("# HELP ") {
            let (name, help) = match rest.find(' ') {
                Some(p) => (&rest[..p], &rest[p + 1..]),
                None => (rest, ""),
            };
            fams.push(TFamily { name: name.to_string(), help: unescape_help(help)?, typ: None, samples: vec![] });
        } else if let Some(rest) = line.strip_prefix("# TYPE ") {
            let parts: Vec<&str> = rest.split(' ').collect();
            if parts.len() != 2 {
                return err(format!("malformed TYPE line {:?}", line));
            }
            match fams.last_mut() {
                Some(f) if f.name == parts[0] && f.typ.is_none() && f.samples.is_empty() => f.typ = Some(parts[1].to_string()),
                _ => fams.push(TFamily { name: parts[0].to_string(), help: String::new(), typ: Some(parts[1].to_string()), samples: vec![] }),
            }
        } else if line.starts_with('#') {
            // other comments are ignored by the format
            continue;
        } else {
            let s = parse_sample(line)?;
            match fams.last_mut() {
                Some(f) => f.samples.push(s),
                None => return err(format!("sample before any TYPE line: {:?}", line)),
            }
        }
    }
    Ok(fams)
}

/// Regroup the sample lines of each family into metrics of the reference model.
/// Histogram: buckets (with `le`), then `_sum`, `_count`; summary: quantile
/// lines, `_sum`, `_count`. The histogram's bucket list is returned as printed,
/// including the `+Inf` line.
pub fn to_families(doc: &[TFamily]) -> Result<Vec<RFamily>, ParseError> {
    let mut out = vec![];
    for f in doc {
        let typ = match f.typ.as_deref() {
            Some("counter") => RType::Counter,
            Some("gauge") => RType::Gauge,
            Some("histogram") => RType::Histogram,
            Some("summary") => RType::Summary,
            Some("untyped") => RType::Untyped,
            other => return err(format!("family {} has type {:?}", f.name, other)),
        };
        let mut metrics: Vec<RMetric> = vec![];
        match typ {
            RType::Counter | RType::Gauge | RType::Untyped => {
                for s in &f.samples {
                    if s.name != f.name {
                        return err(format!("sample {} inside family {}", s.name, f.name));
                    }
                    let mut m = RMetric { labels: s.labels.clone(), ts: s.ts, ..Default::default() };
                    match typ {
                        RType::Counter => m.counter = Some(s.value),
                        RType::Gauge => m.gauge = Some(s.value),
                        _ => m.untyped = Some(s.value),
                    }
                    metrics.push(m);
                }
            }
            RType::Histogram | RType::Summary => {
                let extra = if typ == RType::Histogram { "le" } else { "quantile" };
                let line_name = if typ == RType::Histogram { format!("{}_bucket", f.name) } else { f.name.clone() };
                let mut cur: Option<(Vec<(String, String)>, Option<i64>, Vec<(f64, f64)>, Option<f64>)> = None;
                for s in &f.samples {
                    if s.name == line_name && s.labels.last().map(|l| l.0 == extra).unwrap_or(false) {
                        let base: Vec<(String, String)> = s.labels[..s.labels.len() - 1].to_vec();
                        let key = parse_float(&s.labels.last().unwrap().1)?;
                        match &mut cur {
                            Some((l, ts, b, sum)) if *l == base && sum.is_none() => {
                                if *ts != s.ts {
                                    return err("timestamp differs inside one metric");
                                }
                                b.push((key, s.value));
                            }
                            Some(_) => return err(format!("{} line while the previous metric is incomplete", extra)),
                            None => cur = Some((base, s.ts, vec![(key, s.value)], None)),
                        }
                    } else if s.name == format!("{}_sum", f.name) {
                        match &mut cur {
                            Some((l, ts, _, sum)) if *l == s.labels && sum.is_none() && *ts == s.ts => *sum = Some(s.value),
                            Some(_) => return err("_sum line does not continue the metric"),
                            None => cur = Some((s.labels.clone(), s.ts, vec![], Some(s.value))),
                        }
                    } else if s.name == format!("{}_count", f.name) {
                        match cur.take() {
                            Some((l, ts, b, Some(sum))) if l == s.labels && ts == s.ts => {
                                let mut m = RMetric { labels: l, ts, ..Default::default() };
                                // the printed count is a float; keep it as the f64 it was printed from
                                if typ == RType::Histogram {
                                    m.histogram = Some((s.value.to_bits(), sum, b.iter().map(|(u, c)| (*u, c.to_bits())).collect()));
                                } else {
                                    m.summary = Some((s.value.to_bits(), sum, b));
                                }
                                metrics.push(m);
                            }
                            _ => return err("_count line without preceding _sum of the same metric"),
                        }
                    } else {
                        return err(format!("line {} does not belong to {} family {}", s.name, f.typ.as_deref().unwrap_or(""), f.name));
                    }
                }
                if cur.is_some() {
                    return err(format!("family {} ends inside a metric", f.name));
                }
            }
        }
        out.push(RFamily { name: f.name.clone(), help: f.help.clone(), typ, metrics });
    }
    Ok(out)
}

/// What the text of `f` must parse back to: counts become the bits of the f64
/// they are printed from; a histogram gets its `+Inf` line unless an explicit
/// +Inf bound is present; absent timestamps and 0 are the same.
pub fn expected_view(f: &RFamily) -> RFamily {
    let mut g = f.clone();
    for m in &mut g.metrics {
        if m.ts == Some(0) {
            m.ts = None;
        }
        // only the payload of the declared type is rendered
        let (c, ga, h, s) = (m.counter, m.gauge, m.histogram.clone(), m.summary.clone());
        m.counter = None;
        m.gauge = None;
        m.untyped = None;
        m.histogram = None;
        m.summary = None;
        match g.typ {
            RType::Counter => m.counter = Some(c.unwrap_or(0.0)),
            RType::Gauge => m.gauge = Some(ga.unwrap_or(0.0)),
            RType::Histogram => {
                let (cnt, sum, b) = h.unwrap_or((0, 0.0, vec![]));
                let mut bb: Vec<(f64, u64)> = b.iter().map(|(u, n)| (*u, (*n as f64).to_bits())).collect();
                if !b.iter().any(|(u, _)| *u == f64::INFINITY) {
                    bb.push((f64::INFINITY, (cnt as f64).to_bits()));
                }
                m.histogram = Some(((cnt as f64).to_bits(), sum, bb));
            }
            RType::Summary => {
                let (cnt, sum, q) = s.unwrap_or((0, 0.0, vec![]));
                m.summary = Some(((cnt as f64).to_bits(), sum, q));
            }
            RType::Untyped => {}
        }
    }
    g
}
