//! Enumeration shared by C07 and C14 (and feeding C04/C13): collector subsets x
//! registration orders x registry-internal iteration orders x common-label map
//! iteration orders x registry configurations, on the real Registry.

use crate::combi;
use crate::refmodel::*;
use prometheus::core::{Collector, Desc};
use prometheus::proto::MetricFamily;
use prometheus::{Counter, CounterVec, Gauge, GaugeVec, Histogram, HistogramOpts, IntCounterVec, Opts, PullingGauge, Registry};
use std::collections::{BTreeMap, BTreeSet, HashMap};
use std::sync::{Arc, Mutex};

/// Logs the order in which the registry calls `collect()`.
pub struct Spy {
    pub idx: usize,
    pub inner: Box<dyn Collector>,
    pub log: Arc<Mutex<Vec<usize>>>,
}

impl Collector for Spy {
    fn desc(&self) -> Vec<&Desc> {
        self.inner.desc()
    }
    fn collect(&self) -> Vec<MetricFamily> {
        self.log.lock().unwrap().push(self.idx);
        self.inner.collect()
    }
}

#[derive(Clone, Debug)]
pub struct PoolEntry {
    pub name: &'static str,
    /// metric kind ("counter", "gauge", "histogram")
    pub kind: RType,
    pub fq: &'static str,
}

pub const POOL: [PoolEntry; 21] = [
    PoolEntry { name: "counter ca", kind: RType::Counter, fq: "ca" },
    PoolEntry { name: "counter cb{x=1}", kind: RType::Counter, fq: "cb" },
    PoolEntry { name: "gauge g", kind: RType::Gauge, fq: "g" },
    PoolEntry { name: "histogram h", kind: RType::Histogram, fq: "h" },
    PoolEntry { name: "pulling gauge pg", kind: RType::Gauge, fq: "pg" },
    PoolEntry { name: "counter vec cv[l] children a,b,ab", kind: RType::Counter, fq: "cv" },
    PoolEntry { name: "gauge vec gv[l2,l1]{k=c} children (b,a),(a,b),(a,ab)", kind: RType::Gauge, fq: "gv" },
    PoolEntry { name: "counter same{k=1}", kind: RType::Counter, fq: "same" },
    PoolEntry { name: "counter same{k=2}", kind: RType::Counter, fq: "same" },
    // same name and help, different kinds (C14 only)
    PoolEntry { name: "counter mix{k=1}", kind: RType::Counter, fq: "mix" },
    PoolEntry { name: "gauge mix{k=2}", kind: RType::Gauge, fq: "mix" },
    PoolEntry { name: "histogram mix{k=3}", kind: RType::Histogram, fq: "mix" },
    // a vector without children: registered, contributes no family
    PoolEntry { name: "int counter vec empty[l] without children", kind: RType::Counter, fq: "empty" },
    // a name that already starts with the registry prefix `p_`, and of another kind than `ca`
    PoolEntry { name: "gauge p_ca", kind: RType::Gauge, fq: "p_ca" },
    // two vectors under one name (different constant label), one of them without children
    PoolEntry { name: "counter vec sv{k=1}[l] child x", kind: RType::Counter, fq: "sv" },
    PoolEntry { name: "counter vec sv{k=2}[l] without children", kind: RType::Counter, fq: "sv" },
    // different names and kinds, identical help text and label names
    PoolEntry { name: "counter eqa (help 'same help')", kind: RType::Counter, fq: "eqa" },
    PoolEntry { name: "gauge eqb (help 'same help')", kind: RType::Gauge, fq: "eqb" },
    // a large family (70 children) whose first label has values in strict-prefix relation
    PoolEntry { name: "int gauge vec big[a,b] 70 children, a in {'', x, db, db1, db10}", kind: RType::Gauge, fq: "big" },
    // a custom two-descriptor collector whose collect() returns its families in the reverse order of desc(),
    // and a library counter contributing to one of its names
    PoolEntry { name: "custom bundle [gauge bundle_g, counter ev{shard=1}] collecting in reverse order", kind: RType::Counter, fq: "ev" },
    PoolEntry { name: "counter ev{shard=2}", kind: RType::Counter, fq: "ev" },
];

/// Pool members used by C07 (everything except the same-name/different-kind collectors).
pub fn c07_members() -> Vec<usize> {
    (0..POOL.len()).filter(|i| !(9..=11).contains(i) && *i != 19).collect()
}

/// Fresh real collector `i` (with samples) plus the families it contributes (reference form).
pub fn make(i: usize) -> (Box<dyn Collector>, Vec<RFamily>) {
    let lbl = |v: &[(&str, &str)]| v.iter().map(|(a, b)| (a.to_string(), b.to_string())).collect::<Vec<_>>();
    let one = |name: &str, help: &str, typ: RType, m: RMetric| vec![RFamily { name: name.into(), help: help.into(), typ, metrics: vec![m] }];
    let hist = |sum: f64, lo: u64| Some((1u64, sum, vec![(1.0, lo)]));
    match i {
        0 => {
            let c = Counter::new("ca", "help ca").unwrap();
            c.inc();
            (Box::new(c), one("ca", "help ca", RType::Counter, RMetric { counter: Some(1.0), ..Default::default() }))
        }
        1 => {
            let c = Counter::with_opts(Opts::new("cb", "help cb").const_label("x", "1")).unwrap();
            c.inc_by(2.0);
            (Box::new(c), one("cb", "help cb", RType::Counter, RMetric { labels: lbl(&[("x", "1")]), counter: Some(2.0), ..Default::default() }))
        }
        2 => {
            let g = Gauge::new("g", "help g").unwrap();
            g.set(-3.0);
            (Box::new(g), one("g", "help g", RType::Gauge, RMetric { gauge: Some(-3.0), ..Default::default() }))
        }
        3 => {
            let h = Histogram::with_opts(HistogramOpts::new("h", "help h").buckets(vec![1.0])).unwrap();
            h.observe(0.5);
            (Box::new(h), one("h", "help h", RType::Histogram, RMetric { histogram: hist(0.5, 1), ..Default::default() }))
        }
        4 => {
            let p = PullingGauge::new("pg", "help pg", Box::new(|| 7.0)).unwrap();
            (Box::new(p), one("pg", "help pg", RType::Gauge, RMetric { gauge: Some(7.0), ..Default::default() }))
        }
        5 => {
            let v = CounterVec::new(Opts::new("cv", "help cv"), &["l"]).unwrap();
            let mut ms = vec![];
            for (n, k) in ["b", "a", "ab"].iter().enumerate() {
                v.with_label_values(&[k]).inc_by(n as f64 + 1.0);
                ms.push(RMetric { labels: lbl(&[("l", k)]), counter: Some(n as f64 + 1.0), ..Default::default() });
            }
            (Box::new(v), vec![RFamily { name: "cv".into(), help: "help cv".into(), typ: RType::Counter, metrics: ms }])
        }
        6 => {
            let v = GaugeVec::new(Opts::new("gv", "help gv").const_label("k", "c"), &["l2", "l1"]).unwrap();
            let mut ms = vec![];
            for (n, (a, b)) in [("b", "a"), ("a", "b"), ("a", "ab")].iter().enumerate() {
                v.with_label_values(&[a, b]).set(n as f64);
                ms.push(RMetric { labels: lbl(&[("k", "c"), ("l1", b), ("l2", a)]), gauge: Some(n as f64), ..Default::default() });
            }
            (Box::new(v), vec![RFamily { name: "gv".into(), help: "help gv".into(), typ: RType::Gauge, metrics: ms }])
        }
        7 | 8 => {
            let k = if i == 7 { "1" } else { "2" };
            let c = Counter::with_opts(Opts::new("same", "help same").const_label("k", k)).unwrap();
            c.inc_by(i as f64);
            (Box::new(c), one("same", "help same", RType::Counter, RMetric { labels: lbl(&[("k", k)]), counter: Some(i as f64), ..Default::default() }))
        }
        9 => {
            let c = Counter::with_opts(Opts::new("mix", "help mix").const_label("k", "1")).unwrap();
            c.inc_by(5.0);
            (Box::new(c), one("mix", "help mix", RType::Counter, RMetric { labels: lbl(&[("k", "1")]), counter: Some(5.0), ..Default::default() }))
        }
        10 => {
            let g = Gauge::with_opts(Opts::new("mix", "help mix").const_label("k", "2")).unwrap();
            g.set(6.0);
            (Box::new(g), one("mix", "help mix", RType::Gauge, RMetric { labels: lbl(&[("k", "2")]), gauge: Some(6.0), ..Default::default() }))
        }
        11 => {
            let h = Histogram::with_opts(HistogramOpts::new("mix", "help mix").buckets(vec![1.0]).const_label("k", "3")).unwrap();
            h.observe(4.0);
            (Box::new(h), one("mix", "help mix", RType::Histogram, RMetric { labels: lbl(&[("k", "3")]), histogram: hist(4.0, 0), ..Default::default() }))
        }
        13 => {
            let g = Gauge::new("p_ca", "help p_ca").unwrap();
            g.set(9.0);
            (Box::new(g), one("p_ca", "help p_ca", RType::Gauge, RMetric { gauge: Some(9.0), ..Default::default() }))
        }
        14 => {
            let v = CounterVec::new(Opts::new("sv", "help sv").const_label("k", "1"), &["l"]).unwrap();
            v.with_label_values(&["x"]).inc_by(4.0);
            (Box::new(v), vec![RFamily { name: "sv".into(), help: "help sv".into(), typ: RType::Counter, metrics: vec![RMetric { labels: lbl(&[("k", "1"), ("l", "x")]), counter: Some(4.0), ..Default::default() }] }])
        }
        15 => {
            let v = CounterVec::new(Opts::new("sv", "help sv").const_label("k", "2"), &["l"]).unwrap();
            (Box::new(v), vec![])
        }
        16 => {
            let c = Counter::new("eqa", "same help").unwrap();
            c.inc_by(3.0);
            (Box::new(c), one("eqa", "same help", RType::Counter, RMetric { counter: Some(3.0), ..Default::default() }))
        }
        17 => {
            let g = Gauge::new("eqb", "same help").unwrap();
            g.set(7.5);
            (Box::new(g), one("eqb", "same help", RType::Gauge, RMetric { gauge: Some(7.5), ..Default::default() }))
        }
        18 => {
            let v = prometheus::IntGaugeVec::new(Opts::new("big", "help big"), &["a", "b"]).unwrap();
            let mut ms = vec![];
            let firsts = ["db1", "", "db", "x", "db10"];
            for i in 0..70usize {
                let a = firsts[i % 5];
                let b = format!("{:03}", (i * 37) % 70);
                v.with_label_values(&[a, b.as_str()]).set(i as i64);
                ms.push(RMetric { labels: lbl(&[("a", a), ("b", b.as_str())]), gauge: Some(i as f64), ..Default::default() });
            }
            (Box::new(v), vec![RFamily { name: "big".into(), help: "help big".into(), typ: RType::Gauge, metrics: ms }])
        }
        19 => {
            struct Bundle(Vec<Desc>, Vec<RFamily>);
            impl Collector for Bundle {
                fn desc(&self) -> Vec<&Desc> {
                    self.0.iter().collect()
                }
                fn collect(&self) -> Vec<MetricFamily> {
                    self.1.iter().rev().map(|f| f.to_proto()).collect()
                }
            }
            let mut c = HashMap::new();
            c.insert("shard".to_string(), "1".to_string());
            let descs = vec![Desc::new("bundle_g".into(), "help bundle_g".into(), vec![], HashMap::new()).unwrap(), Desc::new("ev".into(), "help ev".into(), vec![], c).unwrap()];
            let fams = vec![
                RFamily { name: "bundle_g".into(), help: "help bundle_g".into(), typ: RType::Gauge, metrics: vec![RMetric { gauge: Some(2.0), ..Default::default() }] },
                RFamily { name: "ev".into(), help: "help ev".into(), typ: RType::Counter, metrics: vec![RMetric { labels: lbl(&[("shard", "1")]), counter: Some(11.0), ..Default::default() }] },
            ];
            (Box::new(Bundle(descs, fams.clone())), fams)
        }
        20 => {
            let c = Counter::with_opts(Opts::new("ev", "help ev").const_label("shard", "2")).unwrap();
            c.inc_by(12.0);
            (Box::new(c), one("ev", "help ev", RType::Counter, RMetric { labels: lbl(&[("shard", "2")]), counter: Some(12.0), ..Default::default() }))
        }
        _ => {
            // an IntCounterVec without children: registered but contributes no family
            let v = IntCounterVec::new(Opts::new("empty", "help empty"), &["l"]).unwrap();
            (Box::new(v), vec![])
        }
    }
}

#[derive(Clone, Debug)]
pub struct RegConfig {
    pub prefix: Option<&'static str>,
    pub labels: Vec<(&'static str, &'static str)>,
}

pub fn configs() -> Vec<RegConfig> {
    vec![
        RegConfig { prefix: None, labels: vec![] },
        RegConfig { prefix: Some("p"), labels: vec![] },
        RegConfig { prefix: None, labels: vec![("aa", "1")] },
        RegConfig { prefix: None, labels: vec![("zz", "2"), ("aa", "1")] },
        RegConfig { prefix: None, labels: vec![("mm", "3"), ("zz", "2"), ("aa", "1")] },
        RegConfig { prefix: Some("p_q"), labels: vec![("zz", "2"), ("aa", "1")] },
    ]
}

/// Reference gather for a set of pool collectors under a configuration.
/// Common labels are appended after the sample's own (name-sorted) labels, in name order.
pub fn reference_gather(members: &[usize], cfg: &RegConfig) -> Vec<RFamily> {
    let mut by: BTreeMap<String, RFamily> = BTreeMap::new();
    for &i in members {
        for f in make(i).1 {
            if f.metrics.is_empty() {
                continue;
            }
            by.entry(f.name.clone()).and_modify(|e| e.metrics.extend(f.metrics.clone())).or_insert(f);
        }
    }
    let mut common: Vec<(String, String)> = cfg.labels.iter().map(|(a, b)| (a.to_string(), b.to_string())).collect();
    common.sort();
    by.into_values()
        .map(|mut f| {
            f.metrics.sort_by(|a, b| {
                let va: Vec<&String> = a.labels.iter().map(|(_, v)| v).collect();
                let vb: Vec<&String> = b.labels.iter().map(|(_, v)| v).collect();
                va.cmp(&vb)
            });
            if let Some(p) = cfg.prefix {
                f.name = format!("{}_{}", p, f.name);
            }
            for m in &mut f.metrics {
                m.labels.extend(common.clone());
            }
            f
        })
        .collect()
}

/// Number of (subset, registration order, label order) combinations for which not every collect order could be
/// observed (the registry iterated deterministically).
pub static UNREALISED: std::sync::atomic::AtomicU64 = std::sync::atomic::AtomicU64::new(0);

pub struct GatherRun {
    /// gather() after the first registered member has been unregistered again
    pub after_unregister: Vec<MetricFamily>,
    /// set when unregistering that (registered) member failed
    pub unregister_error: Option<String>,
    pub unregistered: usize,
    pub members: Vec<usize>,
    pub reg_order: Vec<usize>,
    pub collect_order: Vec<usize>,
    pub label_order: Vec<usize>,
    pub cfg: RegConfig,
    pub result: Vec<MetricFamily>,
}

/// For one subset and configuration: every registration order (`all_reg_orders`)
/// x every registry-internal collect order x every common-label map iteration
/// order. Calls `visit` for each gather. Returns Err if an order could not be
/// realised (machinery failure).
pub fn enumerate_orders(members: &[usize], cfg: &RegConfig, all_reg_orders: bool, gathers: &mut u64, mut visit: impl FnMut(&GatherRun)) -> Result<(), String> {
    let m = members.len();
    let reg_orders = if all_reg_orders { combi::permutations(m) } else { vec![(0..m).collect::<Vec<_>>()] };
    let label_orders = combi::permutations(cfg.labels.len());
    let pairs: Vec<(String, String)> = cfg.labels.iter().map(|(a, b)| (a.to_string(), b.to_string())).collect();
    let want: BTreeSet<Vec<usize>> = combi::permutations(m).into_iter().map(|p| p.iter().map(|&i| members[i]).collect()).collect();
    for ro in &reg_orders {
        for lo in &label_orders {
            let mut seen: BTreeSet<Vec<usize>> = BTreeSet::new();
            let mut tries = 0;
            let mut since_new = 0;
            while seen.len() < want.len() {
                tries += 1;
                since_new += 1;
                // If 3000 fresh registries in a row show no new collect order (300 when only one order was ever seen), the registry does not iterate in a
                // per-instance random order (for m <= 4 a uniformly random order would have been seen with
                // probability 1 - 24*(23/24)^3000): the orders observed so far are all there are for this
                // registration order, and every registration order is enumerated by the caller.
                if since_new > 3000 || (seen.len() == 1 && since_new > 300) {
                    UNREALISED.fetch_add(1, std::sync::atomic::Ordering::Relaxed);
                    break;
                }
                if tries > 200_000 {
                    return Err(format!("could not realise all {} collect orders for {:?} after {} registries", want.len(), members, tries));
                }
                let labels: Option<HashMap<String, String>> = if pairs.is_empty() {
                    None
                } else {
                    Some(combi::hashmap_with_order(&pairs, lo, 1_000_000).ok_or("could not realise a common-label iteration order")?)
                };
                let reg = Registry::new_custom(cfg.prefix.map(|s| s.to_string()), labels).map_err(|e| format!("new_custom: {}", e))?;
                let log = Arc::new(Mutex::new(vec![]));
                for &pi in ro {
                    let i = members[pi];
                    reg.register(Box::new(Spy { idx: i, inner: make(i).0, log: log.clone() })).map_err(|e| format!("register {}: {}", POOL[i].name, e))?;
                }
                let result = crate::watchdog::case(|| format!("gather of {:?} under {:?}", members, cfg), || reg.gather());
                *gathers += 1;
                let order = log.lock().unwrap().clone();
                if seen.insert(order.clone()) {
                    since_new = 0;
                    let first = members[ro[0]];
                    let (after_unregister, unregister_error) = match reg.unregister(make(first).0) {
                        Ok(()) => (crate::watchdog::case(|| format!("gather after unregister of {:?} under {:?}", members, cfg), || reg.gather()), None),
                        Err(e) => (vec![], Some(format!("unregister({}) of a registered collector failed: {}", POOL[first].name, e))),
                    };
                    visit(&GatherRun { after_unregister, unregister_error, unregistered: first, members: members.to_vec(), reg_order: ro.iter().map(|&p| members[p]).collect(), collect_order: order, label_order: lo.clone(), cfg: cfg.clone(), result });
                }
            }
        }
    }
    Ok(())
}
