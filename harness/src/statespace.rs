//! Engine E2: explicit-state search (stateright BFS) over API histories.
//! A state is the operation history that reaches it; every transition rebuilds
//! fresh real objects, replays the history on them with the reference model in
//! lock-step and compares after every step. States are de-duplicated by a
//! canonical key computed from the real objects *and* the model.

use crate::{Report, Violation};
use serde_json::{json, Value};
use stateright::{Checker, Model, Property};
use std::collections::BTreeMap;
use std::fmt::Debug;
use std::hash::{Hash, Hasher};
use std::sync::{Arc, Mutex};

/// A system under test for E2.
pub trait Sut: Send + Sync + 'static {
    type Op: Clone + Debug + PartialEq + Send + Sync + serde::Serialize + serde::de::DeserializeOwned + 'static;
    /// The operation menu after `hist` (simplest first).
    fn ops(&self, hist: &[Self::Op]) -> Vec<Self::Op>;
    /// Replay `hist` on fresh real objects and the reference model; compare
    /// after every step. `Ok(key)`: canonical key of the reached state (must
    /// cover implementation state and model state). `Err((signature, what,
    /// transcript))` on the first disagreement.
    fn replay(&self, hist: &[Self::Op]) -> Result<String, Disagreement>;
    /// Whether the depth is part of the state identity (use for searches that
    /// are depth-bounded rather than run to a fixpoint).
    fn depth_in_key(&self) -> bool {
        true
    }
    /// Whether histories reaching the same canonical key are merged. Return
    /// `false` when the implementation has state that neither the key nor the
    /// per-step comparison can observe (then every history is its own state and
    /// the search is a plain exhaustive enumeration of histories).
    fn merge_states(&self) -> bool {
        true
    }
}

#[derive(Clone, Debug)]
pub struct Disagreement {
    pub signature: String,
    pub what: String,
    /// step-by-step transcript (implementation answer / model answer)
    pub transcript: Vec<String>,
}

#[derive(Clone, Debug)]
pub struct St<Op> {
    pub hist: Vec<Op>,
    pub key: String,
}

impl<Op> PartialEq for St<Op> {
    fn eq(&self, o: &Self) -> bool {
        self.key == o.key
    }
}
impl<Op> Eq for St<Op> {}
impl<Op> Hash for St<Op> {
    fn hash<H: Hasher>(&self, h: &mut H) {
        self.key.hash(h)
    }
}

type Found<Op> = Arc<Mutex<BTreeMap<String, (Disagreement, Vec<Op>)>>>;

pub struct Space<S: Sut> {
    pub sut: Arc<S>,
    pub found: Found<S::Op>,
    pub max_depth: usize,
    pub transitions: Arc<std::sync::atomic::AtomicU64>,
    pub samples: Arc<Mutex<Vec<Vec<S::Op>>>>,
}

impl<S: Sut> Model for Space<S> {
    type State = St<S::Op>;
    type Action = S::Op;

    fn init_states(&self) -> Vec<Self::State> {
        match guarded_replay(&*self.sut, &[]) {
            Ok(key) => vec![St { hist: vec![], key: format!("0|{}", key) }],
            Err(d) => {
                self.found.lock().unwrap().insert(d.signature.clone(), (d, vec![]));
                vec![]
            }
        }
    }

    fn actions(&self, state: &Self::State, actions: &mut Vec<Self::Action>) {
        if state.hist.len() < self.max_depth {
            actions.extend(self.sut.ops(&state.hist));
        }
    }

    fn next_state(&self, last: &Self::State, action: Self::Action) -> Option<Self::State> {
        let mut hist = last.hist.clone();
        hist.push(action);
        self.transitions.fetch_add(1, std::sync::atomic::Ordering::Relaxed);
        match guarded_replay(&*self.sut, &hist) {
            Ok(key) => {
                let key = if !self.sut.merge_states() {
                    format!("{:?}", hist)
                } else if self.sut.depth_in_key() {
                    format!("{}|{}", hist.len(), key)
                } else {
                    key
                };
                {
                    let mut s = self.samples.lock().unwrap();
                    if s.len() < 4 && hist.len() == self.max_depth.min(4) && hist.len() > s.len() {
                        s.push(hist.clone());
                    }
                }
                Some(St { hist, key })
            }
            Err(d) => {
                let mut f = self.found.lock().unwrap();
                let shorter = f.get(&d.signature).map(|(_, h)| h.len() > hist.len()).unwrap_or(true);
                if shorter {
                    f.insert(d.signature.clone(), (d, hist));
                }
                None // do not expand beyond a violation
            }
        }
    }

    fn properties(&self) -> Vec<Property<Self>> {
        // never discovered: keeps the checker running until the space is exhausted
        vec![Property::sometimes("unreachable", |_, _| false)]
    }
}

/// `Sut::replay` with a panic turned into a disagreement.
pub fn guarded_replay<S: Sut>(sut: &S, hist: &[S::Op]) -> Result<String, Disagreement> {
    match crate::watchdog::case(|| format!("history {:?}", hist), || crate::catch(|| sut.replay(hist))) {
        Ok(r) => r,
        Err(p) => Err(Disagreement { signature: "panic-during-replay".into(), what: format!("replay panicked: {}", p), transcript: hist.iter().map(|o| format!("{:?}", o)).collect() }),
    }
}

pub struct Outcome {
    pub states: u64,
    pub transitions: u64,
    pub max_depth: usize,
    pub fixpoint: bool,
    pub timed_out: bool,
}

/// Run the BFS and fold the result into `rep`. `label` names the model in the evidence.
pub fn explore<S: Sut>(sut: S, max_depth: usize, timeout_s: u64, label: &str, rep: &mut Report) -> Outcome
where
    S::Op: Hash,
{
    let sut = Arc::new(sut);
    let found: Found<S::Op> = Arc::new(Mutex::new(BTreeMap::new()));
    let transitions = Arc::new(std::sync::atomic::AtomicU64::new(0));
    let samples = Arc::new(Mutex::new(vec![]));
    let space = Space { sut: sut.clone(), found: found.clone(), max_depth, transitions: transitions.clone(), samples: samples.clone() };
    let start = std::time::Instant::now();
    let threads = std::thread::available_parallelism().map(|n| n.get()).unwrap_or(4);
    let checker = space
        .checker()
        .threads(threads)
        .timeout(std::time::Duration::from_secs(timeout_s))
        .spawn_bfs()
        .join();
    let timed_out = start.elapsed().as_secs() >= timeout_s;
    let states = checker.unique_state_count() as u64;
    let trans = transitions.load(std::sync::atomic::Ordering::Relaxed);
    let maxd = checker.max_depth();
    // a fixpoint was reached iff no state at the depth limit would have had successors cut off
    let fixpoint = !timed_out && !sut.depth_in_key() && maxd < max_depth;
    rep.states += states;
    rep.distinct_extra += states;
    rep.transitions += trans;
    rep.traces += trans;
    rep.evaluations += trans;
    if timed_out {
        rep.cap_hit = Some(format!("{}: wall-clock timeout {}s", label, timeout_s));
    }
    for h in samples.lock().unwrap().iter() {
        rep.sample(json!({"model": label, "history": h.iter().map(|o| format!("{:?}", o)).collect::<Vec<_>>()}));
    }
    rep.extra.insert(
        format!("model:{}", label),
        json!({"states": states, "transitions": trans, "max_depth_reached": maxd, "depth_bound": max_depth, "fixpoint": fixpoint, "timed_out": timed_out, "wall_s": start.elapsed().as_secs_f64()}),
    );
    for (sig, (d, hist)) in found.lock().unwrap().iter() {
        let ops: Vec<String> = hist.iter().map(|o| format!("{:?}", o)).collect();
        rep.violations.push(Violation {
            signature: sig.clone(),
            what: format!("{}: {} (history {:?})", label, d.what, ops),
            replay: json!({"engine": "statespace", "model": label, "ops": ops, "ops_json": serde_json::to_value(hist).unwrap_or(Value::Null), "transcript": d.transcript, "detail": d.what}),
        });
        rep.violation_counts.insert(sig.clone(), 1);
        rep.outcome(format!("VIOL|{}", sig));
    }
    Outcome { states, transitions: trans, max_depth: maxd, fixpoint, timed_out }
}

pub fn replay_value_ops(doc: &Value) -> Vec<String> {
    doc["ops"].as_array().map(|a| a.iter().map(|s| s.as_str().unwrap_or("").to_string()).collect()).unwrap_or_default()
}


/// `--replay` support for E2 checks: re-execute the recorded operation list
/// twice on fresh real objects (no search engine involved) and print the
/// step-by-step transcript. Exit code 0 conforms / 1 reproduced / 2 diverged.
pub fn replay_cli<S: Sut>(property: &str, path: &str, doc: &Value, sut: &S) -> i32 {
    let ops: Vec<S::Op> = match serde_json::from_value(doc["ops_json"].clone()) {
        Ok(o) => o,
        Err(e) => {
            eprintln!("replay file has no usable ops_json: {}", e);
            return 2;
        }
    };
    println!("model {}: replaying {:?}", doc["model"], ops);
    let r1 = guarded_replay(sut, &ops);
    let r2 = guarded_replay(sut, &ops);
    match (r1, r2) {
        (Ok(a), Ok(b)) if a == b => {
            println!("history conforms (state {})", a);
            0
        }
        (Err(a), Err(b)) if a.transcript == b.transcript && a.signature == b.signature => {
            for l in &a.transcript {
                println!("  {}", l);
            }
            println!("{} [{}]", a.what, a.signature);
            println!("VIOLATION property={} replay={}", property, path);
            1
        }
        _ => {
            eprintln!("replay diverged between two runs");
            2
        }
    }
}
