//! E1 drivers over one shared histogram (C02, C03): observers, local-batch
//! flushers, collectors and readers; snapshot-is-a-cut oracle, conservation /
//! growth / termination oracles and the happens-before audit of the hand-off.

use crate::vsched::*;
use prometheus::core::Collector;
use prometheus::verif::{OpKind, Outcome};
use prometheus::{Histogram, HistogramOpts, HistogramVec, Registry};
use std::collections::{HashMap, HashSet};
use std::sync::atomic::Ordering as MemOrd;

pub const BOUNDS: [f64; 2] = [0.25, 2.0];

#[derive(Clone, Debug, PartialEq, serde::Serialize, serde::Deserialize)]
pub enum HOp {
    Observe(f64),
    /// local histogram: observe each value, then flush once
    Batch(Vec<f64>),
    Collect,
    ReadCount,
    ReadSum,
    /// `start_timer()`, the thread's virtual clock advanced by this many seconds, `observe_duration()`: an observation
    /// of exactly that value (the call recorded in the history is the stop)
    Timer(f64),
    /// observe through the thread's second handle (a further clone of the histogram)
    ObserveB(f64),
}

#[derive(Clone, Copy, Debug, PartialEq, Eq, serde::Serialize, serde::Deserialize)]
pub enum Path {
    Direct,
    VecChild,
    Registry,
}

#[derive(Clone, Copy, Debug, PartialEq, Eq, serde::Serialize, serde::Deserialize)]
pub enum Prop {
    C02,
    C03,
}

pub struct HistShared {
    pub h: Histogram,
    pub vec: Option<HistogramVec>,
    pub reg: Option<Registry>,
    /// a thread's second handle (ObserveB)
    pub second: Option<Histogram>,
}

pub struct HistDriver {
    /// every thread works through its own clone of the histogram handle
    pub cloned: bool,
    pub label: String,
    pub path: Path,
    pub prop: Prop,
    /// sequential prelude run in setup (non-initial start state)
    pub prelude: Vec<HOp>,
    pub programs: Vec<Vec<HOp>>,
    pub audit: bool,
}

fn snapshot_of(mfs: Vec<prometheus::proto::MetricFamily>) -> Val {
    if mfs.len() != 1 || mfs[0].get_metric().len() != 1 {
        return Val::S(format!("collect returned {} families", mfs.len()));
    }
    let h = mfs[0].get_metric()[0].get_histogram().clone();
    Val::Snap(h.get_sample_count(), h.get_sample_sum(), h.get_bucket().iter().map(|b| b.cumulative_count()).collect())
}

impl HistShared {
    fn collect(&self, path: Path) -> Val {
        match path {
            Path::Direct => snapshot_of(self.h.collect()),
            Path::VecChild => snapshot_of(self.vec.as_ref().unwrap().collect()),
            Path::Registry => snapshot_of(self.reg.as_ref().unwrap().gather()),
        }
    }
    fn apply(&self, op: &HOp, path: Path) -> Val {
        match op {
            HOp::Observe(v) => {
                self.h.observe(*v);
                Val::Unit
            }
            HOp::Batch(vs) => {
                let l = self.h.local();
                for v in vs {
                    l.observe(*v);
                }
                l.flush();
                Val::Unit
            }
            HOp::Timer(v) => {
                let t0: i128 = 50_000_000_000;
                prometheus::verif::time::set_thread_clock_nanos(Some(t0));
                let t = self.h.start_timer();
                prometheus::verif::time::set_thread_clock_nanos(Some(t0 + (*v * 1e9) as i128));
                t.observe_duration();
                prometheus::verif::time::set_thread_clock_nanos(None);
                Val::Unit
            }
            HOp::ObserveB(v) => {
                match &self.second {
                    Some(h2) => h2.observe(*v),
                    None => self.h.clone().observe(*v),
                }
                Val::Unit
            }
            HOp::Collect => self.collect(path),
            HOp::ReadCount => Val::I(self.h.get_sample_count() as i64),
            HOp::ReadSum => Val::F(self.h.get_sample_sum()),
        }
    }
}

fn values_of(op: &HOp) -> Vec<f64> {
    match op {
        HOp::Observe(v) | HOp::Timer(v) | HOp::ObserveB(v) => vec![*v],
        HOp::Batch(vs) => vs.clone(),
        _ => vec![],
    }
}

/// Decode a sum of distinct powers of two into the set of values (None if it is not a subset sum).
fn decode(sum: f64, universe: &[f64]) -> Option<Vec<f64>> {
    if universe.iter().any(|v| *v < 0.0) {
        // Signed universe (+-2^k with distinct k): a subset is still determined by its sum (the lowest exponent in
        // which two subsets differ leaves an odd multiple of 2^k), but greedy subtraction no longer finds it.
        let u: Vec<f64> = universe.iter().cloned().filter(|v| !v.is_nan()).collect();
        assert!(u.len() <= 20, "signed universes are decoded by enumeration");
        for mask in 0u32..(1u32 << u.len()) {
            let pick: Vec<f64> = (0..u.len()).filter(|i| mask >> i & 1 == 1).map(|i| u[i]).collect();
            if pick.iter().sum::<f64>() == sum {
                let mut pick = pick;
                pick.sort_by(|a, b| b.partial_cmp(a).unwrap());
                return Some(pick);
            }
        }
        return None;
    }
    let mut rest = sum;
    let mut u: Vec<f64> = universe.to_vec();
    u.sort_by(|a, b| b.partial_cmp(a).unwrap());
    let mut out = vec![];
    for v in u {
        if rest >= v {
            rest -= v;
            out.push(v);
        }
    }
    if rest == 0.0 {
        Some(out)
    } else {
        None
    }
}

impl Driver for HistDriver {
    type Shared = HistShared;
    fn name(&self) -> String {
        format!("{} [{:?} via {:?}] pre{:?} {:?}", self.label, self.prop, self.path, self.prelude, self.programs)
    }
    fn threads(&self) -> usize {
        self.programs.len()
    }
    fn setup(&self) -> HistShared {
        let opts = HistogramOpts::new("h", "help").buckets(BOUNDS.to_vec());
        let sh = match self.path {
            Path::Direct => HistShared { h: Histogram::with_opts(opts).unwrap(), vec: None, reg: None, second: None },
            Path::VecChild => {
                let v = HistogramVec::new(opts, &["l"]).unwrap();
                HistShared { h: v.with_label_values(&["k"]), vec: Some(v), reg: None, second: None }
            }
            Path::Registry => {
                let h = Histogram::with_opts(opts).unwrap();
                prometheus::verif::set_map_seed(Some(1));
                let r = Registry::new();
                prometheus::verif::set_map_seed(None);
                r.register(Box::new(h.clone())).unwrap();
                HistShared { h, vec: None, reg: Some(r), second: None }
            }
        };
        for op in &self.prelude {
            sh.apply(op, self.path);
        }
        sh
    }
    fn body(&self, t: usize, sh: &HistShared, rec: &Recorder) {
        let own;
        let sh = if self.cloned {
            own = HistShared { h: sh.h.clone(), vec: sh.vec.clone(), reg: sh.reg.clone(), second: Some(sh.h.clone()) };
            &own
        } else {
            sh
        };
        for (i, op) in self.programs[t].iter().enumerate() {
            let (name, arg) = match op {
                HOp::Observe(_) | HOp::Timer(_) | HOp::ObserveB(_) => ("observe", Val::I(i as i64)),
                HOp::Batch(_) => ("flush", Val::I(i as i64)),
                HOp::Collect => ("collect", Val::Unit),
                HOp::ReadCount => ("get_sample_count", Val::Unit),
                HOp::ReadSum => ("get_sample_sum", Val::Unit),
            };
            rec.call(name, arg, || sh.apply(op, self.path));
        }
    }
    fn cell_names(&self, sh: &HistShared) -> HashMap<usize, String> {
        let l = sh.h.verif_layout();
        let mut m = HashMap::new();
        m.insert(l.shard_and_count, "shard_and_count".to_string());
        m.insert(l.collect_lock, "collect_lock".to_string());
        for (i, (c, s, b)) in l.shards.iter().enumerate() {
            m.insert(*c, format!("shard{}.count", i));
            m.insert(*s, format!("shard{}.sum", i));
            for (j, a) in b.iter().enumerate() {
                m.insert(*a, format!("shard{}.bucket{}", i, j));
            }
        }
        m
    }

    fn epilogue(&self, sh: &HistShared, rec: &Recorder) {
        rec.call("collect", Val::Unit, || sh.collect(self.path));
        rec.call("get_sample_count", Val::Unit, || Val::I(sh.h.get_sample_count() as i64));
        rec.call("get_sample_sum", Val::Unit, || Val::F(sh.h.get_sample_sum()));
        rec.call("collect", Val::Unit, || sh.collect(self.path));
    }

    fn spec(&self) -> serde_json::Value {
        serde_json::json!({"kind": "histogram", "cloned": self.cloned, "label": self.label, "path": self.path, "prop": self.prop, "prelude": self.prelude, "programs": self.programs, "audit": self.audit})
    }

    fn check(&self, sh: &HistShared, x: &Execution) -> Result<String, (String, String)> {
        let tag = format!("{:?}", self.prop);
        let pre_vals: Vec<f64> = self.prelude.iter().flat_map(values_of).collect();
        let mut universe = pre_vals.clone();
        for p in &self.programs {
            for op in p {
                universe.extend(values_of(op));
            }
        }
        // update calls with their values
        struct Upd<'a> {
            call: &'a Call,
            vals: Vec<f64>,
        }
        let mut upds: Vec<Upd> = vec![];
        for c in &x.calls {
            if c.name == "observe" || c.name == "flush" {
                let idx = match c.arg {
                    Val::I(i) => i as usize,
                    _ => 0,
                };
                upds.push(Upd { call: c, vals: values_of(&self.programs[c.thread][idx]) });
            }
        }
        // NaN observations poison the sum: such drivers are judged by counts only
        // (termination, real-time bounds on the count, conservation at quiescence)
        if universe.iter().any(|v| v.is_nan()) {
            for c in x.calls.iter().filter(|c| c.name == "collect") {
                let (count, cum) = match &c.ret {
                    Val::Snap(a, _, b) => (*a, b.clone()),
                    other => return Err((format!("{}:collect-shape", tag), format!("collect returned {:?}", other))),
                };
                let lo: usize = pre_vals.len() + upds.iter().filter(|u| u.call.precedes(c)).map(|u| u.vals.len()).sum::<usize>();
                let hi: usize = pre_vals.len() + upds.iter().filter(|u| !c.precedes(u.call)).map(|u| u.vals.len()).sum::<usize>();
                let hi = if c.thread == 99 { lo } else { hi };
                if (count as usize) < lo || (count as usize) > hi || cum.last().map(|l| *l > count).unwrap_or(false) {
                    return Err((format!("{}:nan-driver-count:{}", tag, self.label), format!("snapshot {} has count {} (buckets {:?}); {}..={} observations are possible; history: {}", c.show(), count, cum, lo, hi, x.calls.iter().map(|c| c.show()).collect::<Vec<_>>().join("; "))));
                }
            }
            let qc = x.calls.iter().find(|c| c.thread == 99 && c.name == "get_sample_count").map(|c| c.ret.f()).unwrap_or(-1.0);
            if qc != universe.len() as f64 {
                return Err((format!("{}:nan-driver-accessor:{}", tag, self.label), format!("get_sample_count {} after {} observations", qc, universe.len())));
            }
            return Ok(format!("nan-driver|{:?}", x.calls.iter().filter(|c| c.name == "collect").map(|c| format!("{:?}", c.ret)).collect::<Vec<_>>()));
        }
        // snapshots: collects of the run plus a final quiescent one
        let all_collects: Vec<&Call> = x.calls.iter().filter(|c| c.name == "collect").collect();
        if !all_collects.iter().any(|c| c.thread == 99) {
            return Err((format!("{}:collect-shape", tag), "no quiescent collect recorded".into()));
        }
        let mut snaps: Vec<(&Call, Vec<f64>)> = vec![];
        let show = |x: &Execution| x.calls.iter().map(|c| c.show()).collect::<Vec<_>>().join("; ");
        for c in all_collects {
            let (count, sum, cum) = match &c.ret {
                Val::Snap(a, b, c) => (*a, *b, c.clone()),
                other => return Err((format!("{}:collect-shape", tag), format!("collect returned {:?}", other))),
            };
            let s = match decode(sum, &universe) {
                Some(s) => s,
                None => {
                    return Err((format!("C02:snapshot-sum-not-a-set:{}", self.label), format!("snapshot {} has a sum that is no sum of a set of observations {:?}; history: {}", c.show(), universe, show(x))));
                }
            };
            // --- C02: one consistent cut
            if self.prop == Prop::C02 {
                if count != s.len() as u64 {
                    return Err((format!("C02:count-vs-sum:{}", self.label), format!("snapshot {}: count {} but the sum describes {} observations {:?}; history: {}", c.show(), count, s.len(), s, show(x))));
                }
                let exp: Vec<u64> = BOUNDS.iter().map(|b| s.iter().filter(|v| **v <= *b).count() as u64).collect();
                if cum != exp {
                    return Err((format!("C02:buckets-vs-sum:{}", self.label), format!("snapshot {}: cumulative buckets {:?} but the set {:?} implies {:?}; history: {}", c.show(), cum, s, exp, show(x))));
                }
                for v in &pre_vals {
                    if !s.contains(v) {
                        return Err((format!("C02:completed-observation-missing:{}", self.label), format!("snapshot {} misses prelude observation {}; history: {}", c.show(), v, show(x))));
                    }
                }
                for u in &upds {
                    let inside = u.vals.iter().filter(|v| s.contains(v)).count();
                    if u.call.precedes(c) && inside != u.vals.len() {
                        return Err((format!("C02:completed-observation-missing:{}", self.label), format!("snapshot {} misses {:?} of {} which returned before the collect started; history: {}", c.show(), u.vals, u.call.show(), show(x))));
                    }
                    if c.precedes(u.call) && inside != 0 {
                        return Err((format!("C02:future-observation-included:{}", self.label), format!("snapshot {} contains {:?} of {} which started after the collect returned; history: {}", c.show(), u.vals, u.call.show(), show(x))));
                    }
                }
                // prefix-closed per observer thread
                for t in 0..self.programs.len() {
                    let mine: Vec<&Upd> = upds.iter().filter(|u| u.call.thread == t).collect();
                    let mut missing_earlier = false;
                    for u in mine {
                        let inside = u.vals.iter().filter(|v| s.contains(v)).count();
                        if inside > 0 && missing_earlier {
                            return Err((format!("C02:later-without-earlier:{}", self.label), format!("snapshot {} contains a later observation of thread {} without an earlier one; history: {}", c.show(), t, show(x))));
                        }
                        if inside < u.vals.len() {
                            missing_earlier = true;
                        }
                    }
                }
            }
            // --- C03: batch atomicity
            if self.prop == Prop::C03 {
                for u in &upds {
                    let inside = u.vals.iter().filter(|v| s.contains(v)).count();
                    let by_count_ok = true;
                    if inside != 0 && inside != u.vals.len() && by_count_ok {
                        return Err((format!("C03:batch-split:{}", self.label), format!("snapshot {} contains {} of the {} values of batch {}; history: {}", c.show(), inside, u.vals.len(), u.call.show(), show(x))));
                    }
                }
                // bucket/count consistency of a batch: the count must cover whole batches too
                if count != s.len() as u64 {
                    return Err((format!("C03:batch-split-count:{}", self.label), format!("snapshot {}: count {} vs {} values in the sum; history: {}", c.show(), count, s.len(), show(x))));
                }
                let exp: Vec<u64> = BOUNDS.iter().map(|b| s.iter().filter(|v| **v <= *b).count() as u64).collect();
                if cum != exp {
                    return Err((format!("C03:batch-split-buckets:{}", self.label), format!("snapshot {}: buckets {:?} vs {:?} implied by the sum; history: {}", c.show(), cum, exp, show(x))));
                }
            }
            snaps.push((c, s));
        }
        if self.prop == Prop::C03 {
            // growth along real time
            for (c1, s1) in &snaps {
                for (c2, s2) in &snaps {
                    if c1.precedes(c2) && !s1.iter().all(|v| s2.contains(v)) {
                        return Err((format!("C03:snapshot-shrinks:{}", self.label), format!("snapshot {} describes {:?}, the later {} describes {:?}; history: {}", c1.show(), s1, c2.show(), s2, show(x))));
                    }
                }
            }
            // conservation at quiescence: both quiescent snapshots (epilogue) describe everything
            let total: f64 = universe.iter().sum();
            for (c, fs) in snaps.iter().filter(|(c, _)| c.thread == 99) {
                if fs.len() != universe.len() {
                    return Err((format!("C03:final-snapshot-incomplete:{}", self.label), format!("after all threads finished the snapshot {} describes {:?}, all observations are {:?}; history: {}", c.show(), fs, universe, show(x))));
                }
            }
            let qc = x.calls.iter().find(|c| c.thread == 99 && c.name == "get_sample_count").map(|c| c.ret.f());
            let qs = x.calls.iter().find(|c| c.thread == 99 && c.name == "get_sample_sum").map(|c| c.ret.f());
            if qc != Some(universe.len() as f64) || qs != Some(total) {
                return Err((format!("C03:accessors-disagree:{}", self.label), format!("get_sample_count/sum = {:?}/{:?} but {} observations with sum {}; history: {}", qc, qs, universe.len(), total, show(x))));
            }
            // termination: a spinning collector waits only for in-flight observers
            for (t, call, others) in &x.spin_obs {
                if call != "collect" {
                    continue;
                }
                let someone_in_flight = others.iter().enumerate().any(|(u, c)| u != *t && matches!(c.as_deref(), Some("observe") | Some("flush")));
                if !someone_in_flight {
                    return Err((format!("C03:collect-waits-for-nothing:{}", self.label), format!("thread {} spins inside collect while no observe/flush call is in flight (others: {:?}); history: {}", t, others, show(x))));
                }
            }
        }
        if self.audit && self.prop == Prop::C02 {
            let l = sh.h.verif_layout();
            let mut data: HashSet<usize> = HashSet::new();
            let mut sync: HashSet<usize> = HashSet::new();
            sync.insert(l.shard_and_count);
            for (c, s, b) in &l.shards {
                sync.insert(*c);
                data.insert(*s);
                data.extend(b.iter().cloned());
            }
            if let Err(m) = hb_audit(&x.steps, self.programs.len(), &data, &sync, &self.cell_names(sh)) {
                return Err((format!("C02:hb-audit:{}", m.0), format!("{}; history: {}", m.1, show(x))));
            }
        }
        // outcome class: snapshots + real-time relation between collects and updates
        let mut rt = String::new();
        for (c, s) in &snaps {
            rt.push_str(&format!("{:?}", s));
            for u in &upds {
                rt.push(if u.call.precedes(c) { '<' } else if c.precedes(u.call) { '>' } else { '|' });
            }
        }
        Ok(rt)
    }
}

// ------------------------------------------------------------------ hb audit

fn acq(o: MemOrd) -> bool {
    matches!(o, MemOrd::Acquire | MemOrd::AcqRel | MemOrd::SeqCst)
}
fn rel(o: MemOrd) -> bool {
    matches!(o, MemOrd::Release | MemOrd::AcqRel | MemOrd::SeqCst)
}

type VC = Vec<u64>;
fn join(a: &mut VC, b: &VC) {
    for i in 0..a.len() {
        if b[i] > a[i] {
            a[i] = b[i];
        }
    }
}

/// Vector-clock happens-before audit (DESIGN.md appendix C). Every draining
/// access (swap/store/...) to a data cell must be hb-ordered with every access
/// to that cell by another thread; sync cells are never written by plain stores.
pub fn hb_audit(steps: &[StepRec], n: usize, data: &HashSet<usize>, sync: &HashSet<usize>, names: &HashMap<usize, String>) -> Result<(), (String, String)> {
    let zero: VC = vec![0; n];
    let mut c: Vec<VC> = vec![zero.clone(); n];
    let mut fr: Vec<VC> = vec![zero.clone(); n];
    let mut fa: Vec<VC> = vec![zero.clone(); n];
    let mut sc: VC = zero.clone();
    let mut r: HashMap<usize, VC> = HashMap::new();
    // locks: writer-release clock, reader-release clock
    let mut lw: HashMap<usize, VC> = HashMap::new();
    let mut lr: HashMap<usize, VC> = HashMap::new();
    // data-cell accesses: (thread, epoch, draining, step index)
    let mut acc: HashMap<usize, Vec<(usize, u64, bool, usize)>> = HashMap::new();
    let nm = |a: usize| names.get(&a).cloned().unwrap_or_else(|| format!("{:#x}", a));
    for (si, s) in steps.iter().enumerate() {
        let t = s.thread;
        if t >= n {
            continue; // quiescent epilogue (sequential, after every thread has finished)
        }
        let kind = match s.kind {
            PKind::Sync(k) => k,
            _ => continue,
        };
        c[t][t] += 1;
        let x = s.addr;
        // Synchronisation *through a data cell* is not credited: an acquire on a data
        // cell only helps if it reads the value the argument is about, which is exactly
        // what has to be established from the sync cells (count, shard_and_count, lock).
        let (s_ord, s_ord_fail) = if data.contains(&x) { (MemOrd::Relaxed, MemOrd::Relaxed) } else { (s.ord, s.ord_fail) };
        let mut do_load = |c: &mut Vec<VC>, fa: &mut Vec<VC>, sc: &mut VC, o: MemOrd| {
            let rx = r.get(&x).cloned().unwrap_or_else(|| zero.clone());
            if acq(o) {
                join(&mut c[t], &rx);
            } else {
                join(&mut fa[t], &rx);
            }
            if o == MemOrd::SeqCst {
                let s2 = sc.clone();
                join(&mut c[t], &s2);
                join(sc, &c[t]);
            }
        };
        match kind {
            OpKind::Load => do_load(&mut c, &mut fa, &mut sc, s_ord),
            OpKind::Store => {
                if sync.contains(&x) {
                    return Err(("plain-store-to-sync-cell".into(), format!("step {}: thread {} writes sync cell {} with a plain store", si, t, nm(x))));
                }
                let v = if rel(s_ord) { c[t].clone() } else { fr[t].clone() };
                r.insert(x, v);
                if s_ord == MemOrd::SeqCst {
                    let s2 = sc.clone();
                    join(&mut c[t], &s2);
                    join(&mut sc, &c[t]);
                }
            }
            OpKind::Swap | OpKind::FetchAdd | OpKind::FetchSub | OpKind::FetchAnd | OpKind::FetchOr | OpKind::FetchXor | OpKind::FetchNand | OpKind::FetchMax | OpKind::FetchMin => {
                do_load(&mut c, &mut fa, &mut sc, s_ord);
                let add = if rel(s_ord) { c[t].clone() } else { fr[t].clone() };
                let e = r.entry(x).or_insert_with(|| zero.clone());
                join(e, &add);
            }
            OpKind::CmpXchg { .. } => match s.outcome {
                Some(Outcome::CasOk(_)) => {
                    do_load(&mut c, &mut fa, &mut sc, s_ord);
                    let add = if rel(s_ord) { c[t].clone() } else { fr[t].clone() };
                    let e = r.entry(x).or_insert_with(|| zero.clone());
                    join(e, &add);
                }
                _ => do_load(&mut c, &mut fa, &mut sc, s_ord_fail),
            },
            OpKind::Fence => {
                if acq(s_ord) {
                    let f = fa[t].clone();
                    join(&mut c[t], &f);
                }
                if rel(s_ord) {
                    fr[t] = c[t].clone();
                }
                if s_ord == MemOrd::SeqCst {
                    let s2 = sc.clone();
                    join(&mut c[t], &s2);
                    join(&mut sc, &c[t]);
                }
            }
            OpKind::MutexLock | OpKind::RwWrite | OpKind::MutexTryLock | OpKind::RwTryWrite => {
                if s.outcome != Some(Outcome::TryFailed) {
                    if let Some(w) = lw.get(&x) {
                        join(&mut c[t], w);
                    }
                    if let Some(rd) = lr.get(&x) {
                        join(&mut c[t], rd);
                    }
                }
            }
            OpKind::RwRead | OpKind::RwTryRead => {
                if s.outcome != Some(Outcome::TryFailed) {
                    if let Some(w) = lw.get(&x) {
                        join(&mut c[t], w);
                    }
                }
            }
            OpKind::MutexUnlock | OpKind::RwUnlockWrite => {
                lw.insert(x, c[t].clone());
            }
            OpKind::RwUnlockRead => {
                let e = lr.entry(x).or_insert_with(|| zero.clone());
                join(e, &c[t]);
            }
        }
        if data.contains(&x) {
            let draining = !matches!(kind, OpKind::FetchAdd | OpKind::Load | OpKind::CmpXchg { .. });
            let epoch = c[t][t];
            let list = acc.entry(x).or_default();
            for (ot, oe, od, osi) in list.iter() {
                if *ot == t {
                    continue;
                }
                if (draining || *od) && *oe > c[t][*ot] {
                    let (d_step, o_step) = if draining { (si, *osi) } else { (*osi, si) };
                    let ds = &steps[d_step];
                    let os = &steps[o_step];
                    return Err((
                        format!("unordered-drain:{}", nm(x).split('.').last().unwrap_or("").trim_end_matches(char::is_numeric)),
                        format!(
                            "data cell {}: draining access (step {} T{} {:?} {:?} in {:?}) is not happens-before-ordered with step {} T{} {:?} {:?} in {:?} under the orderings the code passes",
                            nm(x), d_step, ds.thread, ds.kind, ds.ord, ds.call, o_step, os.thread, os.kind, os.ord, os.call
                        ),
                    ));
                }
            }
            list.push((t, epoch, draining, si));
        }
    }
    Ok(())
}

// ------------------------------------------------------------- driver sets

pub fn driver_from_spec(v: &serde_json::Value) -> Option<HistDriver> {
    Some(HistDriver {
        cloned: v["cloned"].as_bool().unwrap_or(false),
        label: v["label"].as_str()?.to_string(),
        path: serde_json::from_value(v["path"].clone()).ok()?,
        prop: serde_json::from_value(v["prop"].clone()).ok()?,
        prelude: serde_json::from_value(v["prelude"].clone()).ok()?,
        programs: serde_json::from_value(v["programs"].clone()).ok()?,
        audit: v["audit"].as_bool().unwrap_or(true),
    })
}

pub fn clone_driver(d: &HistDriver) -> HistDriver {
    HistDriver { cloned: d.cloned, label: d.label.clone(), path: d.path, prop: d.prop, prelude: d.prelude.clone(), programs: d.programs.clone(), audit: d.audit }
}

/// The start states every driver is run from (built sequentially in setup).
pub fn preludes() -> Vec<Vec<HOp>> {
    vec![
        vec![],
        vec![HOp::Observe(16.0), HOp::Collect],
        vec![HOp::Observe(16.0), HOp::Collect, HOp::Observe(32.0), HOp::Batch(vec![0.0625]), HOp::Collect],
    ]
}

pub struct Planned {
    pub driver: HistDriver,
    pub mode: Mode,
    /// spurious weak-CAS failures allowed per execution (deviation budget)
    pub spurious: usize,
}

/// Driver set of DESIGN.md section 6 (C02: D1–D6, C03: D2–D5 with >=3 collections + D7).
pub fn driver_set(prop: Prop, thorough: bool) -> Vec<Planned> {
    use HOp::*;
    let (a, b, c, d, e, f) = (0.125, 0.25, 1.0, 2.0, 4.0, 8.0);
    let o = |v: &[f64]| v.iter().map(|x| Observe(*x)).collect::<Vec<_>>();
    let col = |n: usize| vec![Collect; n];
    let bq = if thorough { 3 } else { 2 };
    let mut shapes: Vec<(&str, Path, Vec<Vec<HOp>>, Mode)> = vec![];
    match prop {
        Prop::C02 => {
            shapes.push(("D1 O|O|C", Path::Direct, vec![o(&[a]), o(&[e]), col(1)], Mode::U));
            shapes.push(("D2 OO|CC", Path::Direct, vec![o(&[a, d]), col(2)], Mode::U));
            shapes.push(("D3 OO|OO|CC", Path::Direct, vec![o(&[a, d]), o(&[b, f]), col(2)], Mode::B(bq)));
            let big = if thorough { Mode::U } else { Mode::B(bq) };
            shapes.push(("D4 O|Batch|CCC", Path::Direct, vec![o(&[a]), vec![Batch(vec![b, e])], col(3)], big));
            shapes.push(("D5 OO|CC|C", Path::Direct, vec![o(&[a, d]), col(2), col(1)], big));
            shapes.push(("D6v O|CC", Path::VecChild, vec![o(&[c]), col(2)], Mode::U));
            shapes.push(("D6r O|CC", Path::Registry, vec![o(&[c]), col(2)], Mode::U));
            shapes.push(("D8 Batch|O|CC", Path::Direct, vec![vec![Batch(vec![a, e])], o(&[c]), col(2)], big));
            // collectors queueing behind one another while a third thread observes and then collects itself
            shapes.push(("D11 C|C|OC", Path::Direct, vec![col(1), col(1), vec![Observe(c), Collect]], Mode::B(2)));
            // one thread observing through two handles of the histogram in turn (clones of clones), against a collector
            shapes.push(("D13 OaObOa|CC", Path::Direct, vec![vec![Observe(a), ObserveB(d), Observe(e)], col(2)], Mode::U));
            shapes.push(("D13v OaOb|CC", Path::VecChild, vec![vec![Observe(a), ObserveB(d)], col(2)], Mode::U));
            // signed observations (negative sums drained and carried over)
            shapes.push(("D14 O(-)O(-)|CC", Path::Direct, vec![o(&[-a, -d]), col(2)], Mode::U));
            shapes.push(("D12 C|C|C|OC", Path::Direct, vec![col(1), col(1), col(1), vec![Observe(c), Collect]], Mode::B(2)));
            if thorough {
                shapes.push(("D9 OOO|CCC", Path::Direct, vec![o(&[a, c, e]), col(3)], Mode::U));
                shapes.push(("D10 O|O|C|C", Path::Direct, vec![o(&[a]), o(&[e]), col(1), col(1)], Mode::B(3)));
            }
        }
        Prop::C03 => {
            shapes.push(("E1 OO|CCC", Path::Direct, vec![o(&[a, d]), col(3)], Mode::U));
            let big = if thorough { Mode::U } else { Mode::B(bq) };
            shapes.push(("E2 O|Batch|CCC", Path::Direct, vec![o(&[c]), vec![Batch(vec![b, e])], col(3)], big));
            shapes.push(("E3 OO|CC|CC", Path::Direct, vec![o(&[a, d]), col(2), col(2)], big));
            shapes.push(("E4 Batch|Batch|CCC", Path::Direct, vec![vec![Batch(vec![a, d])], vec![Batch(vec![b, f])], col(3)], Mode::B(bq)));
            shapes.push(("E5 BatchO|CCC", Path::Direct, vec![vec![Batch(vec![a, e]), Observe(c)], col(3)], Mode::U));
            shapes.push(("D7 O|CCC|Reader", Path::Direct, vec![o(&[a]), col(3), vec![ReadCount, ReadSum]], big));
            shapes.push(("E6v Batch|CCC", Path::VecChild, vec![vec![Batch(vec![a, e])], col(3)], Mode::U));
            // NaN observations (count-only oracle: termination and conservation)
            shapes.push(("E9 O(NaN)O|CCC", Path::Direct, vec![vec![Observe(f64::NAN), Observe(d)], col(3)], Mode::U));
            shapes.push(("E10 Batch(NaN)|CC", Path::Direct, vec![vec![Batch(vec![f64::NAN, a])], col(2)], Mode::U));
            // timers: 33 stops by one thread against one stop by another (a ring or batch of pending durations wraps)
            {
                let pw = |k: i32| (2.0f64).powi(k);
                let many: Vec<HOp> = (0..33).map(|k| Timer(pw(k - 9))).collect();
                shapes.push(("E12 Tx33|T", Path::Direct, vec![many, vec![Timer(pw(24))]], Mode::B(2)));
                shapes.push(("E13 TT|T|CC", Path::Direct, vec![vec![Timer(pw(-9)), Timer(pw(-8))], vec![Timer(pw(-7))], col(2)], Mode::B(2)));
            }
            // a flusher whose sum update can lose the race four times in a row
            shapes.push(("E11 Batch|OOOO", Path::Direct, vec![vec![Batch(vec![a])], o(&[b, c, d, f])], Mode::U));
            // signed observations: sums that are negative or zero-crossing when they are drained, carried over or flushed
            shapes.push(("E14 O(-)O|CCC", Path::Direct, vec![o(&[-d, a]), col(3)], Mode::U));
            shapes.push(("E15 Batch(-)|O|CC", Path::Direct, vec![vec![Batch(vec![-e, b])], o(&[c]), col(2)], big));
            shapes.push(("E16 Batch(-)O(-)|CCC", Path::Direct, vec![vec![Batch(vec![-a, -f]), Observe(-c)], col(3)], Mode::U));
            if thorough {
                shapes.push(("E7 OO|OO|CCC", Path::Direct, vec![o(&[a, d]), o(&[b, f]), col(3)], Mode::B(3)));
                shapes.push(("E8 O|C|C|C", Path::Direct, vec![o(&[a]), col(1), col(1), col(1)], Mode::B(3)));
            }
        }
    }
    let mut out = vec![];
    for (label, path, programs, mode) in shapes {
        for (pi, pre) in preludes().into_iter().enumerate() {
            // quick tier: the four-thread driver from the initial state only
            if !thorough && label.starts_with("D12") && pi != 0 {
                continue;
            }
            // quick tier: the deviation only for the small unbounded drivers
            let calls: usize = programs.iter().map(|p| p.len()).sum();
            // deviation budget: Mode-U drivers in the thorough tier, the small Mode-U drivers in the quick tier
            let spurious = if mode == Mode::U && (thorough || calls <= 3) { 1 } else { 0 };
            out.push(Planned {
                driver: HistDriver { cloned: pi == 1, label: format!("{} s{}{}", label, pi, if pi == 1 { " cloned" } else { "" }), path, prop, prelude: pre, programs: programs.clone(), audit: true },
                mode,
                spurious,
            });
        }
    }
    out
}

/// Run a planned driver set, falling back from Mode U to Mode B when the cap is hit.
pub fn run_set(plan: Vec<Planned>, cap: u64, fallback_bound: usize) -> Vec<(String, Mode, ExploreResult)> {
    let mut out = vec![];
    let only = std::env::var("HIST_ONLY").ok();
    for p in plan {
        if let Some(f) = &only {
            if !p.driver.label.contains(f.as_str()) {
                continue;
            }
        }
        let name = p.driver.name();
        let copy = clone_driver(&p.driver);
        let t0 = std::time::Instant::now();
        let mut used = p.mode;
        SPURIOUS_BUDGET.store(p.spurious, std::sync::atomic::Ordering::Relaxed);
        let cap_here = if let Mode::B(_) = p.mode { cap * 4 } else { cap };
        let mut r = explore(p.driver, p.mode, cap_here, 16);
        if r.cap_hit && p.mode == Mode::U && r.violations.is_empty() {
            used = Mode::B(fallback_bound);
            SPURIOUS_BUDGET.store(0, std::sync::atomic::Ordering::Relaxed);
            r = explore(copy, used, cap * 4, 16);
        }
        eprintln!("  {:<28} {:?} dev<={}: {} executions (+{} sleep-blocked), {} outcomes, {} violations, cap_hit={} {:.1}s", name.split(" [").next().unwrap_or(""), used, SPURIOUS_BUDGET.load(std::sync::atomic::Ordering::Relaxed), r.executions, r.sleep_blocked, r.outcomes.len(), r.violations.len(), r.cap_hit, t0.elapsed().as_secs_f64());
        out.push((name, used, r));
    }
    out
}
