//! Plain reference representation of metric families (independent of the
//! crate's data model) plus conversion to/from the crate's protobuf-backed
//! `proto::MetricFamily`, a generator of adversarial families shared by the
//! exposition checks (C04, C13, C17), and the reference gather.

use prometheus::proto;
use serde_json::{json, Value};

#[derive(Clone, Copy, Debug, PartialEq, Eq, PartialOrd, Ord, Hash)]
pub enum RType {
    Counter,
    Gauge,
    Summary,
    Untyped,
    Histogram,
}

impl RType {
    pub fn text(self) -> &'static str {
        match self {
            RType::Counter => "counter",
            RType::Gauge => "gauge",
            RType::Summary => "summary",
            RType::Untyped => "untyped",
            RType::Histogram => "histogram",
        }
    }
    pub fn number(self) -> u64 {
        match self {
            RType::Counter => 0,
            RType::Gauge => 1,
            RType::Summary => 2,
            RType::Untyped => 3,
            RType::Histogram => 4,
        }
    }
    pub fn from_number(n: u64) -> Option<RType> {
        Some(match n {
            0 => RType::Counter,
            1 => RType::Gauge,
            2 => RType::Summary,
            3 => RType::Untyped,
            4 => RType::Histogram,
            _ => return None,
        })
    }
    pub fn to_proto(self) -> proto::MetricType {
        match self {
            RType::Counter => proto::MetricType::COUNTER,
            RType::Gauge => proto::MetricType::GAUGE,
            RType::Summary => proto::MetricType::SUMMARY,
            RType::Untyped => proto::MetricType::UNTYPED,
            RType::Histogram => proto::MetricType::HISTOGRAM,
        }
    }
    pub fn from_proto(t: proto::MetricType) -> RType {
        match t {
            proto::MetricType::COUNTER => RType::Counter,
            proto::MetricType::GAUGE => RType::Gauge,
            proto::MetricType::SUMMARY => RType::Summary,
            proto::MetricType::UNTYPED => RType::Untyped,
            proto::MetricType::HISTOGRAM => RType::Histogram,
        }
    }
}

/// Payloads a sample may carry (any subset may be present in a protobuf Metric).
#[derive(Clone, Debug, Default)]
pub struct RMetric {
    pub labels: Vec<(String, String)>,
    pub ts: Option<i64>,
    pub counter: Option<f64>,
    pub gauge: Option<f64>,
    pub untyped: Option<f64>,
    /// (count, sum, [(upper_bound, cumulative_count)])
    pub histogram: Option<(u64, f64, Vec<(f64, u64)>)>,
    /// (count, sum, [(quantile, value)])
    pub summary: Option<(u64, f64, Vec<(f64, f64)>)>,
}

#[derive(Clone, Debug)]
pub struct RFamily {
    pub name: String,
    pub help: String,
    pub typ: RType,
    pub metrics: Vec<RMetric>,
}

fn fb(v: f64) -> u64 {
    if v.is_nan() {
        0x7ff8_0000_0000_0000
    } else {
        v.to_bits()
    }
}

impl RMetric {
    /// Canonical comparison key; floats by bits. `nan_class`: identify all NaNs.
    pub fn key(&self, nan_class: bool) -> String {
        let f = |v: f64| if nan_class { fb(v) } else { v.to_bits() };
        format!(
            "L{:?} T{:?} C{:?} G{:?} U{:?} H{:?} S{:?}",
            self.labels,
            self.ts,
            self.counter.map(f),
            self.gauge.map(f),
            self.untyped.map(f),
            self.histogram.as_ref().map(|(c, s, b)| (*c, f(*s), b.iter().map(|(u, n)| (f(*u), *n)).collect::<Vec<_>>())),
            self.summary.as_ref().map(|(c, s, q)| (*c, f(*s), q.iter().map(|(a, b)| (f(*a), f(*b))).collect::<Vec<_>>())),
        )
    }

    pub fn to_proto(&self) -> proto::Metric {
        let mut m = proto::Metric::default();
        m.set_label(
            self.labels
                .iter()
                .map(|(k, v)| {
                    let mut lp = proto::LabelPair::default();
                    lp.set_name(k.clone());
                    lp.set_value(v.clone());
                    lp
                })
                .collect(),
        );
        if let Some(t) = self.ts {
            m.set_timestamp_ms(t);
        }
        if let Some(v) = self.counter {
            let mut c = proto::Counter::default();
            c.set_value(v);
            m.set_counter(c);
        }
        if let Some(v) = self.gauge {
            let mut c = proto::Gauge::default();
            c.set_value(v);
            m.set_gauge(c);
        }
        if let Some(v) = self.untyped {
            let mut c = proto::Untyped::default();
            c.set_value(v);
            m.untyped = protobuf::MessageField::some(c);
        }
        if let Some((cnt, sum, b)) = &self.histogram {
            let mut h = proto::Histogram::default();
            h.set_sample_count(*cnt);
            h.set_sample_sum(*sum);
            h.set_bucket(
                b.iter()
                    .map(|(u, n)| {
                        let mut x = proto::Bucket::default();
                        x.set_upper_bound(*u);
                        x.set_cumulative_count(*n);
                        x
                    })
                    .collect(),
            );
            m.set_histogram(h);
        }
        if let Some((cnt, sum, q)) = &self.summary {
            let mut s = proto::Summary::default();
            s.set_sample_count(*cnt);
            s.set_sample_sum(*sum);
            s.set_quantile(
                q.iter()
                    .map(|(a, b)| {
                        let mut x = proto::Quantile::default();
                        x.set_quantile(*a);
                        x.set_value(*b);
                        x
                    })
                    .collect(),
            );
            m.set_summary(s);
        }
        m
    }

    pub fn from_proto(m: &proto::Metric) -> RMetric {
        RMetric {
            labels: m.get_label().iter().map(|lp| (lp.name().to_string(), lp.value().to_string())).collect(),
            ts: m.timestamp_ms,
            counter: m.counter.as_ref().map(|c| c.value()),
            gauge: m.gauge.as_ref().map(|c| c.value()),
            untyped: m.untyped.as_ref().map(|c| c.value()),
            histogram: m.histogram.as_ref().map(|h| {
                (
                    h.get_sample_count(),
                    h.get_sample_sum(),
                    h.get_bucket().iter().map(|b| (b.upper_bound(), b.cumulative_count())).collect(),
                )
            }),
            summary: m.summary.as_ref().map(|s| {
                (
                    s.sample_count(),
                    s.sample_sum(),
                    s.get_quantile().iter().map(|q| (q.quantile(), q.value())).collect(),
                )
            }),
        }
    }

    pub fn to_json(&self) -> Value {
        let f = crate::f64s;
        json!({
            "labels": self.labels, "ts": self.ts,
            "counter": self.counter.map(f), "gauge": self.gauge.map(f), "untyped": self.untyped.map(f),
            "histogram": self.histogram.as_ref().map(|(c,s,b)| json!({"count": c, "sum": f(*s), "buckets": b.iter().map(|(u,n)| json!([f(*u), n])).collect::<Vec<_>>()})),
            "summary": self.summary.as_ref().map(|(c,s,q)| json!({"count": c, "sum": f(*s), "quantiles": q.iter().map(|(a,b)| json!([f(*a), f(*b)])).collect::<Vec<_>>()})),
        })
    }

    pub fn from_json(v: &Value) -> RMetric {
        let f = |x: &Value| crate::f64_from_s(x.as_str().unwrap());
        RMetric {
            labels: v["labels"].as_array().map(|a| a.iter().map(|p| (p[0].as_str().unwrap().to_string(), p[1].as_str().unwrap().to_string())).collect()).unwrap_or_default(),
            ts: v["ts"].as_i64(),
            counter: if v["counter"].is_null() { None } else { Some(f(&v["counter"])) },
            gauge: if v["gauge"].is_null() { None } else { Some(f(&v["gauge"])) },
            untyped: if v["untyped"].is_null() { None } else { Some(f(&v["untyped"])) },
            histogram: if v["histogram"].is_null() { None } else {
                let h = &v["histogram"];
                Some((h["count"].as_u64().unwrap(), f(&h["sum"]), h["buckets"].as_array().unwrap().iter().map(|b| (f(&b[0]), b[1].as_u64().unwrap())).collect()))
            },
            summary: if v["summary"].is_null() { None } else {
                let h = &v["summary"];
                Some((h["count"].as_u64().unwrap(), f(&h["sum"]), h["quantiles"].as_array().unwrap().iter().map(|b| (f(&b[0]), f(&b[1]))).collect()))
            },
        }
    }
}

impl RFamily {
    pub fn to_proto(&self) -> proto::MetricFamily {
        let mut mf = proto::MetricFamily::default();
        mf.set_name(self.name.clone());
        mf.set_help(self.help.clone());
        mf.set_field_type(self.typ.to_proto());
        mf.set_metric(self.metrics.iter().map(|m| m.to_proto()).collect());
        mf
    }

    pub fn from_proto(mf: &proto::MetricFamily) -> RFamily {
        RFamily {
            name: mf.name().to_string(),
            help: mf.help().to_string(),
            typ: RType::from_proto(mf.get_field_type()),
            metrics: mf.get_metric().iter().map(RMetric::from_proto).collect(),
        }
    }

    pub fn key(&self, nan_class: bool) -> String {
        format!(
            "{:?} {:?} {:?} [{}]",
            self.name,
            self.help,
            self.typ,
            self.metrics.iter().map(|m| m.key(nan_class)).collect::<Vec<_>>().join("; ")
        )
    }

    pub fn to_json(&self) -> Value {
        json!({"name": self.name, "help": self.help, "type": self.typ.text(), "metrics": self.metrics.iter().map(|m| m.to_json()).collect::<Vec<_>>()})
    }

    pub fn from_json(v: &Value) -> RFamily {
        let typ = [RType::Counter, RType::Gauge, RType::Summary, RType::Untyped, RType::Histogram]
            .into_iter()
            .find(|t| t.text() == v["type"].as_str().unwrap())
            .unwrap();
        RFamily {
            name: v["name"].as_str().unwrap().to_string(),
            help: v["help"].as_str().unwrap().to_string(),
            typ,
            metrics: v["metrics"].as_array().unwrap().iter().map(RMetric::from_json).collect(),
        }
    }
}

// ---------------------------------------------------------------- generator

pub const STRS: [&str; 15] = [
    "", "a", " ", "\\", "\"", "\n", "\r", "\\n", "a\"b\\c\nd", "\u{e9}", "\u{1F600}", "# HELP", "} 1", "\\\u{e9}\"\u{1F600}\n\u{e9}", "x\ny 1\n# TYPE z counter\nz 2",
];

pub fn floats() -> Vec<f64> {
    vec![
        0.0,
        -0.0,
        1.0,
        -1.5,
        0.1 + 0.2,
        1e300,
        5e-324,
        9007199254740993.0,
        f64::INFINITY,
        f64::NEG_INFINITY,
        f64::NAN,
    ]
}

pub const TIMESTAMPS: [Option<i64>; 6] = [None, Some(0), Some(1), Some(-1), Some(i64::MAX), Some(i64::MIN)];
pub const COUNTS: [u64; 3] = [0, 1, 9007199254740993];
pub const BIG_COUNTS: [u64; 5] = [(1 << 63) - 1, 1 << 63, (1 << 63) + 1, u64::MAX - 1, u64::MAX];

fn sample(typ: RType, v: f64, aux: f64, shape: usize) -> RMetric {
    let mut m = RMetric::default();
    match typ {
        RType::Counter => m.counter = Some(v),
        RType::Gauge => m.gauge = Some(v),
        RType::Untyped => m.untyped = Some(v),
        RType::Histogram => {
            let b = match shape % 4 {
                0 => vec![],
                1 => vec![(aux, 1)],
                2 => vec![(aux, 1), (f64::INFINITY, 2)],
                _ => vec![(-1.0, 0), (aux, COUNTS[2])],
            };
            m.histogram = Some((COUNTS[shape % 3], v, b));
        }
        RType::Summary => {
            let q = match shape % 3 {
                0 => vec![],
                1 => vec![(aux, v)],
                _ => vec![(0.5, aux), (aux, v)],
            };
            m.summary = Some((COUNTS[shape % 3], v, q));
        }
    }
    m
}

/// The bounded family space shared by the exposition checks. `level` 0 = quick,
/// 1 = thorough. Families have valid names; everything else is adversarial.
pub fn gen_families(level: usize, types: &[RType]) -> Vec<RFamily> {
    let fl = floats();
    let mut out = vec![];
    for &typ in types {
        // every float in every float slot, every shape
        for &v in &fl {
            for &aux in &fl {
                for shape in 0..12 {
                    if !matches!(typ, RType::Histogram | RType::Summary) && (shape > 0 || aux.to_bits() != 0) {
                        continue;
                    }
                    out.push(RFamily { name: "m".into(), help: "h".into(), typ, metrics: vec![sample(typ, v, aux, shape)] });
                }
            }
        }
        // two samples of one family holding every ordered pair of floats in the same slot (value; bucket bound /
        // quantile at the same index): anything remembered from one sample to the next within a family shows
        for &a in &fl {
            for &b in &fl {
                let mut m1 = sample(typ, a, a, 2);
                m1.labels = vec![("l".into(), "1".into())];
                let mut m2 = sample(typ, b, b, 2);
                m2.labels = vec![("l".into(), "2".into())];
                out.push(RFamily { name: "pair".into(), help: "h".into(), typ, metrics: vec![m1, m2] });
            }
        }
        // counts at the ends of the unsigned and signed 64-bit ranges
        if matches!(typ, RType::Histogram | RType::Summary) {
            for &c in &BIG_COUNTS {
                let mut m = RMetric::default();
                match typ {
                    RType::Histogram => m.histogram = Some((c, 1.0, vec![(0.5, c / 2), (1.0, c), (f64::INFINITY, c)])),
                    _ => m.summary = Some((c, 1.0, vec![(0.5, 1.0)])),
                }
                out.push(RFamily { name: "big_count".into(), help: "h".into(), typ, metrics: vec![m] });
            }
        }
        // label shapes: 0..2 pairs with every assignment from STRS
        for a in STRS {
            let mut m = sample(typ, 1.0, 0.5, 1);
            m.labels = vec![("l".into(), a.to_string())];
            out.push(RFamily { name: "m_1".into(), help: a.to_string(), typ, metrics: vec![m] });
            for b in STRS {
                let mut m = sample(typ, 1.0, 0.5, 2);
                m.labels = vec![("l".into(), a.to_string()), ("l2".into(), b.to_string())];
                let mut m2 = sample(typ, 2.0, 0.25, 1);
                m2.labels = vec![("l".into(), b.to_string()), ("l2".into(), a.to_string())];
                out.push(RFamily { name: "a:b".into(), help: format!("{}{}", a, b), typ, metrics: vec![m, m2] });
            }
        }
        if level > 0 {
            for a in STRS {
                for b in STRS {
                    for c in STRS {
                        let mut m = sample(typ, 1.0, 0.5, 1);
                        m.labels = vec![("x".into(), a.to_string()), ("y".into(), b.to_string()), ("z".into(), c.to_string())];
                        out.push(RFamily { name: "m3".into(), help: format!("{}{}{}", c, a, b), typ, metrics: vec![m] });
                    }
                }
            }
        }
        // timestamps
        for ts in TIMESTAMPS {
            for &v in &fl {
                let mut m = sample(typ, v, 2.0, 2);
                m.ts = ts;
                m.labels = vec![("l".into(), "v".into())];
                let mut m0 = sample(typ, v, 2.0, 1);
                m0.ts = ts;
                out.push(RFamily { name: "_t:9".into(), help: "".into(), typ, metrics: vec![m0, m] });
            }
        }
    }
    out
}

/// A long token: longer than any plausible internal chunk / buffer threshold, with an
/// escape in the middle and a multi-byte character after it.
pub fn long_string() -> String {
    format!("{}\n{}\u{e9}\"{}", "x".repeat(1100), "y".repeat(700), "z".repeat(300))
}

/// Streams that mix small families with very large ones (a single long token; a family of
/// >= 64 KiB made of many samples), at every position of a 4-family stream.
pub fn big_streams() -> Vec<Vec<RFamily>> {
    let small: Vec<RFamily> = basis_families().into_iter().take(3).collect();
    let long = long_string();
    let mut m = RMetric { counter: Some(1.0), ..Default::default() };
    m.labels = vec![("l".into(), long.clone())];
    let long_label = RFamily { name: "long_label".into(), help: "h".into(), typ: RType::Counter, metrics: vec![m] };
    let long_help = RFamily { name: "long_help".into(), help: long.clone(), typ: RType::Gauge, metrics: vec![RMetric { gauge: Some(2.0), ..Default::default() }] };
    let mut many = vec![];
    for i in 0..900 {
        let mut m = RMetric { counter: Some(i as f64), ..Default::default() };
        m.labels = vec![("path".into(), format!("/some/fairly/long/path/segment/number/{:05}/with/a/tail/to/add/bytes/{}", i, "p".repeat(20))), ("code".into(), format!("{}", 200 + i % 7))];
        many.push(m);
    }
    let huge = RFamily { name: "huge".into(), help: "a family of more than 64 KiB".into(), typ: RType::Counter, metrics: many };
    let mut hist = RMetric { histogram: Some((3, 1.5, (0..400).map(|i| (i as f64, (i / 100) as u64)).collect())), ..Default::default() };
    hist.labels = vec![("l".into(), "v".into())];
    let wide_hist = RFamily { name: "wide_hist".into(), help: "400 buckets".into(), typ: RType::Histogram, metrics: vec![hist] };
    let mut out = vec![];
    for big in [long_label, long_help, huge, wide_hist] {
        for pos in 0..=3 {
            let mut st = small.clone();
            st.insert(pos, big.clone());
            out.push(st);
        }
        out.push(vec![big.clone(), big.clone()]);
    }
    out
}

/// A small basis used for multi-family framing (all ordered pairs / triples).
pub fn basis_families() -> Vec<RFamily> {
    let mut b = vec![];
    for (i, typ) in [RType::Counter, RType::Gauge, RType::Histogram, RType::Summary].into_iter().enumerate() {
        let mut m = sample(typ, 1.0 + i as f64, 0.5, 2);
        m.labels = vec![("l".into(), STRS[8].to_string())];
        b.push(RFamily { name: format!("f{}", i), help: STRS[(i * 5) % STRS.len()].to_string(), typ, metrics: vec![m] });
    }
    let mut m = sample(RType::Counter, f64::NAN, 0.0, 0);
    m.ts = Some(-1);
    b.push(RFamily { name: "f4".into(), help: "".into(), typ: RType::Counter, metrics: vec![m.clone(), m] });
    b.push(RFamily { name: "f5".into(), help: "\n".into(), typ: RType::Gauge, metrics: vec![sample(RType::Gauge, -0.0, 0.0, 0)] });
    b
}
