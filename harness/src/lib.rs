//! Shared machinery of the /verif harness: evidence files, known findings,
//! violation reporting, small combinatorics helpers.

pub mod celldrv;
pub mod combi;
pub mod gatherenum;
pub mod histdrv;
pub mod ctors;
pub mod pbwire;
pub mod refmodel;
pub mod statespace;
pub mod textparse;
pub mod vecdrv;
pub mod vsched;
pub mod watchdog;

use serde_json::{json, Value};
use std::collections::{BTreeMap, BTreeSet};
use std::path::PathBuf;
use std::time::Instant;

pub const VERIF_ROOT: &str = "/verif";

/// Set by the E1 engine: the verdict of this run depends on every synchronisation primitive of the code under test
/// being routed through the hooks.
pub static E1_USED: std::sync::atomic::AtomicBool = std::sync::atomic::AtomicBool::new(false);

pub const REPO_ROOT: &str = "/repo";
const AUDITED_FILES: [&str; 9] = ["atomic64.rs", "vec.rs", "histogram.rs", "registry.rs", "counter.rs", "gauge.rs", "value.rs", "metrics.rs", "desc.rs"];

/// The synchronisation and shared-state facilities the hooked modules (tests excluded) name, one item per statement
/// and facility: `std::sync::Mutex`, `parking_lot::RwLock`, `AtomicBool`, `thread_local!`, ...
/// (types that carry no synchronisation of their own, like `Arc` or `TryLockError`, are not items).
pub fn hook_audit_items() -> std::collections::BTreeMap<String, Vec<String>> {
    // What the verification copy (hooked_copy.py) does NOT route through the hooks. std's Mutex and integer / bool
    // atomics and parking_lot's RwLock are replaced by reporting ones there and are therefore not listed.
    let std_prims = ["RwLock", "Condvar", "Barrier", "Once", "OnceLock", "LazyLock", "mpsc", "AtomicPtr", "AtomicI16", "AtomicI8", "compiler_fence"];
    let pl_prims = ["Mutex", "Condvar", "Once", "ReentrantMutex", "FairMutex", "const_mutex", "const_rwlock"];
    // names that always mean a facility outside the hooks, wherever they come from
    let bare = ["AtomicPtr", "AtomicI16", "AtomicI8", "Condvar", "Barrier", "OnceLock", "OnceCell", "LazyLock", "UnsafeCell", "SyncUnsafeCell"];
    // (spin_loop, yield_now and sleep are scheduling hints, not synchronisation: the stutter rules deal with the loops around them)
    let phrases = ["thread_local!", "lazy_static", "once_cell", "crossbeam", "static mut", "thread::park", "thread::spawn"];
    let idents = |s: &str| -> Vec<String> { s.split(|c: char| !(c.is_alphanumeric() || c == '_')).filter(|w| !w.is_empty()).map(String::from).collect() };
    let mut out = std::collections::BTreeMap::new();
    for f in AUDITED_FILES {
        let path = PathBuf::from(REPO_ROOT).join("src").join(f);
        let text = std::fs::read_to_string(&path).unwrap_or_default();
        let text = match text.find("\n#[cfg(test)]\nmod ") {
            Some(i) => text[..i].to_string(),
            None => text,
        };
        let mut items = vec![];
        let mut stmt = String::new();
        for line in text.lines() {
            let line = match line.find("//") {
                Some(i) => &line[..i],
                None => line,
            };
            let t = line.trim();
            if t.is_empty() {
                continue;
            }
            if !stmt.is_empty() || t.starts_with("use ") || t.starts_with("pub use ") || t.starts_with("pub(crate) use ") {
                if !stmt.is_empty() {
                    stmt.push(' ');
                }
                stmt.push_str(t);
                if !t.ends_with(';') {
                    continue;
                }
            } else {
                stmt.push_str(t);
            }
            let item = std::mem::take(&mut stmt);
            let ids = idents(&item);
            let mut found = std::collections::BTreeSet::new();
            if item.contains("std::sync") || item.contains("core::sync") {
                for w in ids.iter().filter(|w| std_prims.contains(&w.as_str())) {
                    found.insert(format!("std::sync::{}", w));
                }
            }
            if item.contains("parking_lot") {
                for w in ids.iter().filter(|w| pl_prims.contains(&w.as_str())) {
                    found.insert(format!("parking_lot::{}", w));
                }
            }
            for w in ids.iter().filter(|w| bare.contains(&w.as_str())) {
                found.insert(w.clone());
            }
            for ph in phrases {
                if item.contains(ph) {
                    found.insert(ph.to_string());
                }
            }
            // `use std::{sync::atomic::AtomicBool, ...}`: the nested form is not rewritten by hooked_copy.py
            if (item.contains("std::{") || item.contains("core::{")) && item.contains("sync") {
                found.insert("nested import of std::sync (write `use std::sync::...` so that it is routed through the hooks)".to_string());
            }
            items.extend(found);
        }
        items.sort();
        out.insert(f.to_string(), items);
    }
    out
}

/// Items of the current tree that the committed baseline (`hook_audit_baseline.json`) does not list: primitives the
/// scheduler cannot see.
pub fn hook_audit() -> Vec<String> {
    let base: Value = std::fs::read_to_string(PathBuf::from(VERIF_ROOT).join("hook_audit_baseline.json"))
        .ok()
        .and_then(|s| serde_json::from_str(&s).ok())
        .unwrap_or(Value::Null);
    let mut out = vec![];
    for (f, items) in hook_audit_items() {
        let mut allowed: Vec<String> = base.get(&f).and_then(Value::as_array).map(|a| a.iter().filter_map(|v| v.as_str().map(String::from)).collect()).unwrap_or_default();
        for it in items {
            if let Some(i) = allowed.iter().position(|a| *a == it) {
                allowed.remove(i);
            } else {
                out.push(format!("src/{}: a use of `{}` beyond the audited baseline: it is not routed through the verification hooks", f, it));
            }
        }
    }
    out
}


#[derive(Clone, Copy, PartialEq, Eq, Debug)]
pub enum Tier {
    Quick,
    Thorough,
}

impl Tier {
    pub fn name(self) -> &'static str {
        match self {
            Tier::Quick => "quick",
            Tier::Thorough => "thorough",
        }
    }
}

pub struct Args {
    pub tier: Tier,
    pub replay: Option<String>,
    pub seed: i64,
    pub rest: Vec<String>,
}

/// `<bin> [quick|thorough] [--replay <file>] [extra...]`; `VERIF_TIER` is the
/// fallback for the tier, `VERIF_SEED` is recorded only.
pub fn parse_args() -> Args {
    let mut tier = match std::env::var("VERIF_TIER").ok().as_deref() {
        Some("thorough") => Tier::Thorough,
        _ => Tier::Quick,
    };
    let mut replay = None;
    let mut rest = vec![];
    let mut it = std::env::args().skip(1);
    while let Some(a) = it.next() {
        match a.as_str() {
            "quick" => tier = Tier::Quick,
            "thorough" => tier = Tier::Thorough,
            "--replay" => replay = it.next(),
            _ => rest.push(a),
        }
    }
    let seed = std::env::var("VERIF_SEED")
        .ok()
        .and_then(|s| s.parse().ok())
        .unwrap_or(0);
    Args {
        tier,
        replay,
        seed,
        rest,
    }
}

/// One violation of a property found by a check.
#[derive(Clone, Debug)]
pub struct Violation {
    /// Input-class signature; matched against known_findings.json.
    pub signature: String,
    /// One-line human description of what fails.
    pub what: String,
    /// Replay artefact (self-contained JSON).
    pub replay: Value,
}

/// Collects coverage numbers and violations of one check run and writes the
/// evidence file / prints the verdict lines.
pub struct Report {
    pub property: String,
    pub tier: Tier,
    pub seed: i64,
    start: Instant,
    pub evaluations: u64,
    pub transitions: u64,
    pub states: u64,
    pub traces: u64,
    pub outcomes: BTreeSet<String>,
    /// distinct outcomes counted by an engine itself (e.g. unique states), added to `outcomes.len()`
    pub distinct_extra: u64,
    pub rule: String,
    pub samples: Vec<Value>,
    pub exhaustive: bool,
    pub cap_hit: Option<String>,
    pub bounds: Value,
    pub extra: BTreeMap<String, Value>,
    pub assumptions: Vec<String>,
    pub violations: Vec<Violation>,
    /// signature -> count of occurrences (violations list keeps the first of each)
    pub violation_counts: BTreeMap<String, u64>,
    pub max_samples: usize,
}

impl Report {
    pub fn new(property: &str, args: &Args) -> Report {
        // hang watchdog for the unhooked engines (once per process)
        static STARTED: std::sync::Once = std::sync::Once::new();
        let prop: &'static str = Box::leak(property.to_string().into_boxed_str());
        let tier = args.tier.name();
        STARTED.call_once(|| watchdog::start(prop, tier, 20));
        Report {
            property: property.to_string(),
            tier: args.tier,
            seed: args.seed,
            start: Instant::now(),
            evaluations: 0,
            transitions: 0,
            states: 0,
            traces: 0,
            outcomes: BTreeSet::new(),
            distinct_extra: 0,
            rule: String::new(),
            samples: vec![],
            exhaustive: true,
            cap_hit: None,
            bounds: json!({}),
            extra: BTreeMap::new(),
            assumptions: vec![],
            violations: vec![],
            violation_counts: BTreeMap::new(),
            max_samples: 6,
        }
    }

    pub fn elapsed_s(&self) -> f64 {
        self.start.elapsed().as_secs_f64()
    }

    pub fn sample(&mut self, v: Value) {
        if self.samples.len() < self.max_samples {
            self.samples.push(v);
        }
    }

    /// Record a distinct-outcome class (bounded memory: long strings are hashed).
    pub fn outcome<S: AsRef<str>>(&mut self, s: S) {
        let s = s.as_ref();
        if s.len() > 96 {
            self.outcomes.insert(format!("#{:016x}", fnv(s.as_bytes())));
        } else {
            self.outcomes.insert(s.to_string());
        }
    }

    pub fn violation(&mut self, signature: impl Into<String>, what: impl Into<String>, replay: Value) {
        let signature = signature.into();
        let n = self.violation_counts.entry(signature.clone()).or_insert(0);
        *n += 1;
        if *n == 1 {
            self.violations.push(Violation {
                signature,
                what: what.into(),
                replay,
            });
        }
    }

    pub fn merge(&mut self, other: Report) {
        self.evaluations += other.evaluations;
        self.transitions += other.transitions;
        self.states += other.states;
        self.traces += other.traces;
        self.outcomes.extend(other.outcomes);
        self.distinct_extra += other.distinct_extra;
        for s in other.samples {
            self.sample(s);
        }
        self.exhaustive &= other.exhaustive;
        if self.cap_hit.is_none() {
            self.cap_hit = other.cap_hit;
        }
        for v in other.violations {
            let c = other.violation_counts.get(&v.signature).cloned().unwrap_or(1);
            let n = self.violation_counts.entry(v.signature.clone()).or_insert(0);
            if *n == 0 {
                self.violations.push(v);
            }
            *n += c;
        }
        for (k, v) in other.extra {
            self.extra.entry(k).or_insert(v);
        }
    }

    /// Write the evidence file, print KNOWN-FINDING / VIOLATION lines and
    /// return the process exit code.
    pub fn finish(mut self) -> i32 {
        let known = load_known_findings();
        let mut new_violations = 0;
        let mut known_hits = vec![];
        let mut lines = vec![];
        for v in &self.violations {
            let is_known = known.iter().any(|k| {
                k.get("property").and_then(Value::as_str) == Some(&self.property)
                    && k.get("signature").and_then(Value::as_str) == Some(&v.signature)
                    && k.get("status").and_then(Value::as_str) == Some("known")
            });
            if is_known {
                known_hits.push(v.signature.clone());
                lines.push(format!(
                    "KNOWN-FINDING: property={} {} [{}] ({} occurrences)",
                    self.property,
                    v.what,
                    v.signature,
                    self.violation_counts.get(&v.signature).cloned().unwrap_or(1)
                ));
            } else {
                new_violations += 1;
                let path = write_replay(&self.property, v);
                let what: String = v.what.chars().take(300).collect();
                lines.push(format!("  what: {} [{}]", what, v.signature));
                lines.push(format!(
                    "VIOLATION property={} replay={}",
                    self.property,
                    path.display()
                ));
            }
        }
        if self.samples.is_empty() {
            self.samples.push(json!("(no sample recorded)"));
        }
        let distinct = self.outcomes.len() as u64 + self.distinct_extra;
        let mut coverage = json!({
            "states": self.states.max(1),
            "transitions": self.transitions.max(1),
            "traces_validated_against_impl": self.traces,
            "evaluations": self.evaluations.max(1),
            "distinct_nontrivial": distinct,
            "rule": self.rule,
            "samples": self.samples,
            "exhaustive": self.exhaustive && self.cap_hit.is_none(),
            "bounds": self.bounds,
            "cap_hit": self.cap_hit,
            "known_findings_hit": known_hits,
        });
        for (k, v) in &self.extra {
            coverage[k] = v.clone();
        }
        let gaps = if E1_USED.load(std::sync::atomic::Ordering::Relaxed) { hook_audit() } else { vec![] };
        if E1_USED.load(std::sync::atomic::Ordering::Relaxed) {
            coverage["hook_coverage_gaps"] = json!(gaps);
        }
        let ev = json!({
            "property_id": self.property,
            "tier": self.tier.name(),
            "seed": self.seed,
            "level": "model_checking",
            "coverage": coverage,
            "assumptions": self.assumptions,
            "wall_s": self.elapsed_s(),
            "violations": new_violations,
        });
        let dir = PathBuf::from(VERIF_ROOT).join("evidence");
        let _ = std::fs::create_dir_all(&dir);
        let path = dir.join(format!("{}.json", self.property));
        if let Err(e) = std::fs::write(&path, serde_json::to_string_pretty(&ev).unwrap() + "\n") {
            eprintln!("cannot write evidence {}: {}", path.display(), e);
            return 2;
        }
        println!(
            "{} {}: evaluations={} states={} transitions={} distinct_outcomes={} exhaustive={} wall={:.1}s",
            self.property,
            self.tier.name(),
            self.evaluations,
            self.states,
            self.transitions,
            distinct,
            self.exhaustive && self.cap_hit.is_none(),
            self.elapsed_s()
        );
        for l in lines {
            println!("{}", l);
        }
        if new_violations > 0 {
            1
        } else if !gaps.is_empty() {
            for g in &gaps {
                println!("HOOK-COVERAGE: {}", g);
            }
            println!(
                "{} UNDECIDED: no violation among the schedules explored, but the code under test uses primitives the scheduler cannot see \
                 (route them through /repo/src/verif.rs, then refresh hook_audit_baseline.json with `hookaudit --write`)",
                self.property
            );
            2
        } else {
            println!("{} OK", self.property);
            0
        }
    }
}

pub fn load_known_findings() -> Vec<Value> {
    let p = PathBuf::from(VERIF_ROOT).join("known_findings.json");
    match std::fs::read_to_string(&p) {
        Ok(s) => match serde_json::from_str::<Value>(&s) {
            Ok(Value::Array(a)) => a,
            _ => {
                eprintln!("known_findings.json is not a JSON array");
                std::process::exit(2);
            }
        },
        Err(_) => vec![],
    }
}

pub fn fnv(bytes: &[u8]) -> u64 {
    let mut h: u64 = 0xcbf29ce484222325;
    for b in bytes {
        h ^= *b as u64;
        h = h.wrapping_mul(0x100000001b3);
    }
    h
}

pub fn write_replay(property: &str, v: &Violation) -> PathBuf {
    let dir = PathBuf::from(VERIF_ROOT).join("replays");
    let _ = std::fs::create_dir_all(&dir);
    let mut doc = v.replay.clone();
    if let Value::Object(m) = &mut doc {
        m.insert("property".into(), json!(property));
        m.insert("signature".into(), json!(v.signature));
        m.insert("what".into(), json!(v.what));
    } else {
        doc = json!({"property": property, "signature": v.signature, "what": v.what, "input": doc});
    }
    let text = serde_json::to_string_pretty(&doc).unwrap();
    let path = dir.join(format!("{}-{:016x}.json", property, fnv(v.signature.as_bytes())));
    let _ = std::fs::write(&path, text + "\n");
    path
}

pub fn read_replay(path: &str) -> Value {
    match std::fs::read_to_string(path) {
        Ok(s) => serde_json::from_str(&s).unwrap_or_else(|e| {
            eprintln!("replay file {} is not JSON: {}", path, e);
            std::process::exit(2)
        }),
        Err(e) => {
            eprintln!("cannot read replay file {}: {}", path, e);
            std::process::exit(2)
        }
    }
}

/// Run `f` catching panics; `Err(msg)` on unwind. The default panic hook is
/// silenced for the duration of the program by `quiet_panics()`.
pub fn catch<R>(f: impl FnOnce() -> R) -> Result<R, String> {
    match std::panic::catch_unwind(std::panic::AssertUnwindSafe(f)) {
        Ok(r) => Ok(r),
        Err(p) => Err(if let Some(s) = p.downcast_ref::<&str>() {
            s.to_string()
        } else if let Some(s) = p.downcast_ref::<String>() {
            s.clone()
        } else {
            "<non-string panic payload>".to_string()
        }),
    }
}

pub fn quiet_panics() {
    std::panic::set_hook(Box::new(|_| {}));
}

/// f64 rendered so that every bit pattern class is distinguishable in JSON.
pub fn f64s(v: f64) -> String {
    if v.is_nan() {
        "NaN".into()
    } else if v == 0.0 && v.is_sign_negative() {
        "-0.0".into()
    } else if v.is_infinite() {
        if v > 0.0 { "+Inf".into() } else { "-Inf".into() }
    } else {
        format!("{:e}", v)
    }
}

pub fn f64_from_s(s: &str) -> f64 {
    match s {
        "NaN" => f64::NAN,
        "-0.0" => -0.0,
        "+Inf" => f64::INFINITY,
        "-Inf" => f64::NEG_INFINITY,
        _ => s.parse().unwrap(),
    }
}

/// Bit-equality with all NaNs identified.
pub fn same_f64(a: f64, b: f64) -> bool {
    (a.is_nan() && b.is_nan()) || a.to_bits() == b.to_bits()
}


/// Run a child process with a wall-clock limit; `Err` with what happened on a timeout (the child is killed).
pub fn run_with_timeout(cmd: &mut std::process::Command, limit_s: u64) -> Result<std::process::Output, String> {
    use std::io::Read;
    let mut child = cmd.stdout(std::process::Stdio::piped()).stderr(std::process::Stdio::piped()).spawn().map_err(|e| e.to_string())?;
    let mut out = child.stdout.take().unwrap();
    let mut err = child.stderr.take().unwrap();
    let t1 = std::thread::spawn(move || {
        let mut b = Vec::new();
        let _ = out.read_to_end(&mut b);
        b
    });
    let t2 = std::thread::spawn(move || {
        let mut b = Vec::new();
        let _ = err.read_to_end(&mut b);
        b
    });
    let start = Instant::now();
    loop {
        match child.try_wait() {
            Ok(Some(status)) => {
                return Ok(std::process::Output { status, stdout: t1.join().unwrap_or_default(), stderr: t2.join().unwrap_or_default() });
            }
            Ok(None) => {
                if start.elapsed().as_secs() > limit_s {
                    let _ = child.kill();
                    let _ = child.wait();
                    let so = t1.join().unwrap_or_default();
                    let tail: String = String::from_utf8_lossy(&so).lines().rev().take(3).collect::<Vec<_>>().join(" | ");
                    return Err(format!("did not finish within {} s (killed); last output: {}", limit_s, tail));
                }
                std::thread::sleep(std::time::Duration::from_millis(50));
            }
            Err(e) => return Err(e.to_string()),
        }
    }
}
