//! Engine E1 `vsched`: a stateless, deterministic scheduler that runs the real
//! library one synchronisation operation at a time (through the `verif` hooks
//! of the prometheus crate) and enumerates thread interleavings of a small
//! driver: unbounded with sleep-set reduction (Mode U) or iteratively
//! preemption-bounded without reduction (Mode B).
//!
//! Threads are real OS threads from a per-explorer pool; exactly one of them
//! runs between two scheduling points. A scheduling point is every hooked
//! atomic / lock operation plus the CallBegin / CallEnd pseudo-operations the
//! recorder puts around every API call (so that real-time precedence between
//! calls is something the scheduler places).

use prometheus::verif::{set_thread_hook, Directive, Op, OpKind, Outcome, SyncHook};
use serde_json::{json, Value};
use std::collections::HashMap;
use std::sync::atomic::Ordering as MemOrd;
use std::sync::{mpsc, Arc, Condvar, Mutex};

// ------------------------------------------------------------------ values

/// Argument / return values recorded in call histories.
#[derive(Clone, Debug, PartialEq)]
pub enum Val {
    Unit,
    F(f64),
    I(i64),
    B(bool),
    S(String),
    /// histogram snapshot: (count, sum, cumulative bucket counts)
    Snap(u64, f64, Vec<u64>),
    /// collected children: (key, value) pairs
    Kids(Vec<(String, f64)>),
}

impl Val {
    pub fn f(&self) -> f64 {
        match self {
            Val::F(v) => *v,
            Val::I(v) => *v as f64,
            _ => f64::NAN,
        }
    }
}

#[derive(Clone, Debug)]
pub struct Call {
    pub thread: usize,
    pub name: String,
    pub arg: Val,
    pub ret: Val,
    /// position (global step index) of CallBegin / CallEnd
    pub inv: usize,
    pub res: usize,
}

impl Call {
    pub fn precedes(&self, other: &Call) -> bool {
        self.res < other.inv
    }
    pub fn show(&self) -> String {
        format!("T{} {}({:?}) -> {:?} [{}..{}]", self.thread, self.name, self.arg, self.ret, self.inv, self.res)
    }
}

// --------------------------------------------------------------- operations

#[derive(Clone, Copy, Debug, PartialEq)]
pub enum PKind {
    Start,
    CallBegin,
    CallEnd,
    Sync(OpKind),
}

#[derive(Clone, Copy, Debug)]
pub struct Pending {
    pub kind: PKind,
    pub addr: usize,
    pub expected: u64,
    pub operand: u64,
    pub ord: MemOrd,
    pub ord_fail: MemOrd,
    pub peek: fn(usize) -> u64,
    /// cells whose change would wake this operation (the other cells of a load-only spin loop); 0 = unused
    pub watch: [usize; 8],
}

fn no_peek(_: usize) -> u64 {
    0
}

impl Pending {
    fn pseudo(kind: PKind) -> Pending {
        Pending { kind, addr: 0, expected: 0, operand: 0, ord: MemOrd::Relaxed, ord_fail: MemOrd::Relaxed, peek: no_peek, watch: [0; 8] }
    }
    fn from_op(op: &Op) -> Pending {
        Pending { kind: PKind::Sync(op.kind), addr: op.addr, expected: op.expected, operand: op.operand, ord: op.ord, ord_fail: op.ord_fail, peek: op.peek, watch: [0; 8] }
    }
    fn is_lock_op(&self) -> bool {
        matches!(
            self.kind,
            PKind::Sync(
                OpKind::MutexLock
                    | OpKind::MutexTryLock
                    | OpKind::MutexUnlock
                    | OpKind::RwRead
                    | OpKind::RwWrite
                    | OpKind::RwTryRead
                    | OpKind::RwTryWrite
                    | OpKind::RwUnlockRead
                    | OpKind::RwUnlockWrite
            )
        )
    }
    fn is_read_only(&self) -> bool {
        matches!(self.kind, PKind::Sync(OpKind::Load))
    }
}

/// Independence of two pending operations of different threads.
pub fn independent(a: &Pending, b: &Pending) -> bool {
    use PKind::*;
    match (a.kind, b.kind) {
        // real-time precedence: a return and an invocation of different threads are ordered
        (CallEnd, CallBegin) | (CallBegin, CallEnd) => false,
        (Start | CallBegin | CallEnd, _) | (_, Start | CallBegin | CallEnd) => true,
        (Sync(OpKind::Fence), _) | (_, Sync(OpKind::Fence)) => false,
        (Sync(_), Sync(_)) => {
            if a.addr != b.addr {
                // a write to a cell that a load-only spin loop reads can wake the loop
                let wakes = |w: &Pending, l: &Pending| !w.is_read_only() && !w.is_lock_op() && w.addr != 0 && l.watch.contains(&w.addr);
                return !(wakes(a, b) || wakes(b, a));
            }
            if a.is_lock_op() || b.is_lock_op() {
                // two read acquisitions / releases of a rwlock commute, everything else does not
                let rd = |p: &Pending| matches!(p.kind, Sync(OpKind::RwRead | OpKind::RwUnlockRead));
                return rd(a) && rd(b);
            }
            a.is_read_only() && b.is_read_only()
        }
    }
}

#[derive(Clone, Debug)]
pub struct StepRec {
    pub thread: usize,
    pub kind: PKind,
    pub addr: usize,
    pub ord: MemOrd,
    pub ord_fail: MemOrd,
    pub operand: u64,
    pub expected: u64,
    pub outcome: Option<Outcome>,
    pub call: Option<String>,
}

#[derive(Clone, Debug)]
pub struct Node {
    /// enabled threads at this node (ascending ids)
    pub enabled: Vec<usize>,
    /// pending operation of every thread that has one (index = thread id)
    pub pending: Vec<Option<Pending>>,
    pub chosen: usize,
    /// thread that ran the previous step (None at the first node)
    pub prev: Option<usize>,
    /// sleep set (thread ids) in force at this node
    pub sleep: Vec<usize>,
    /// the chosen thread's weak CAS was made to fail spuriously (a deviation)
    pub spurious: bool,
    /// enabled threads whose pending operation is a compare_exchange_weak
    pub weak_cas: Vec<usize>,
    /// threads waiting under a stutter rule at this node, with the key of the loop they are in
    pub stutter: Vec<(usize, String)>,
    /// the chosen thread was waiting under a stutter rule and was told to spin on alone until its loop gives up (a deviation)
    pub give_up: bool,
    /// the spurious failure of this node starts a storm: the thread's weak CAS keeps failing spuriously, round after
    /// round of its retry loop, while it runs on alone (a deviation; implies `spurious`)
    pub storm: bool,
}

#[derive(Clone, Debug, PartialEq)]
pub enum Abort {
    Deadlock(String),
    SleepBlocked,
    Horizon,
    ReplayDivergence(String),
    BodyPanic(String),
    /// a thread told to spin on alone did not leave its loop within GIVE_UP_LIMIT steps: the loop does not give up
    UnboundedSpin(String),
}

#[derive(Default)]
struct LockState {
    writer: Option<usize>,
    readers: usize,
}

enum TStatus {
    NotStarted,
    Parked(Pending),
    Running,
    Finished,
}

struct ExecState {
    status: Vec<TStatus>,
    current: Option<usize>,
    prev: Option<usize>,
    nodes: Vec<Node>,
    steps: Vec<StepRec>,
    prefix: Vec<usize>,
    sleep: Vec<usize>,
    /// sleep set to install when the end of the prefix is reached
    sleep_after_prefix: Vec<usize>,
    use_sleep: bool,
    abort: Option<Abort>,
    locks: HashMap<usize, LockState>,
    /// (cell, expected, value the failed compare-exchange returned)
    last_failed_cas: Vec<Option<(usize, u64, u64)>>,
    /// consecutive stutter steps taken because nothing else could run
    forced_stutter: usize,
    /// per thread: the last operation if it was a read-modify-write that left the cell as it found it
    /// (kind, cell, operand, value found)
    last_idle_rmw: Vec<Option<(OpKind, usize, u64, u64)>>,
    /// a thread spinning on alone after a give-up deviation: (thread, loop key, steps taken so far)
    alone: Option<(usize, String, usize)>,
    /// a spurious-failure storm in progress (see `Storm`)
    storm: Option<Storm>,
    /// steps taken by threads spinning on alone (not counted against the step horizon)
    alone_total: usize,
    /// per thread: the loads (cell, value read, peek) executed since its last operation that was not a load
    load_log: Vec<Vec<(usize, u64, fn(usize) -> u64)>>,
    calls: Vec<Call>,
    open_call: Vec<Option<usize>>,
    cur_call_name: Vec<Option<String>>,
    finished: usize,
    max_steps: usize,
    /// directive handed to a thread when it is woken
    directive: Vec<Directive>,
    /// threads inside an API call (between CallBegin and CallEnd), for the waiting oracle
    pub in_call: Vec<Option<String>>,
    /// (spinning thread, its call, what every other thread was doing) observed when a thread was disabled by the spin rule
    pub spin_obs: Vec<(usize, String, Vec<Option<String>>)>,
}

pub struct Exec {
    st: Mutex<ExecState>,
    cvs: Vec<Condvar>,
    done: Condvar,
}

struct Aborted;

/// An execution in which no thread reaches a scheduling point for this long is a machinery failure (exit 2).
const HANG_LIMIT_S: u64 = 15;

/// Spurious-failure storm: `compare_exchange_weak` may fail spuriously any number of times. After the first spurious
/// failure the thread runs on alone; the operations up to its next weak CAS are learned as the body of its retry loop,
/// and every further weak CAS fails spuriously too for as long as the thread repeats exactly that body (at most
/// STORM_MAX failures). The first operation that departs from the body ends the storm *before* it executes, with
/// ordinary scheduling (all alternatives) from there on. This reaches code that reacts to the n-th lost
/// compare-exchange of a cell (back-off, mode switches) at the cost of one deviation instead of n preemptions.
#[derive(Clone, Debug)]
struct Storm {
    t: usize,
    body: Vec<(String, usize)>,
    learned: bool,
    pos: usize,
    fails: usize,
}
pub const STORM_MAX: usize = 64;
const STORM_BODY_MAX: usize = 6;
/// Storm deviations are offered only when this is set (check binaries whose subject retries a weak CAS).
pub static STORM: std::sync::atomic::AtomicBool = std::sync::atomic::AtomicBool::new(false);

/// A thread told to spin on alone must leave its loop within this many steps, else the loop counts as unbounded.
const GIVE_UP_LIMIT: usize = 20_000;

/// Give-up deviations allowed per execution (a waiting thread spins on alone until its loop gives up).
pub static GIVE_UP_BUDGET: std::sync::atomic::AtomicUsize = std::sync::atomic::AtomicUsize::new(1);

/// Loops (operation kind @ call) found not to give up within GIVE_UP_LIMIT steps: not offered the deviation again.
pub static UNBOUNDED_LOOPS: Mutex<Vec<String>> = Mutex::new(Vec::new());

impl Exec {
    fn new(n: usize, prefix: Vec<usize>, sleep_after_prefix: Vec<usize>, use_sleep: bool, max_steps: usize) -> Arc<Exec> {
        Arc::new(Exec {
            st: Mutex::new(ExecState {
                status: (0..n).map(|_| TStatus::NotStarted).collect(),
                current: None,
                prev: None,
                nodes: vec![],
                steps: vec![],
                prefix,
                sleep: vec![],
                sleep_after_prefix,
                use_sleep,
                abort: None,
                locks: HashMap::new(),
                last_failed_cas: vec![None; n],
                forced_stutter: 0,
                last_idle_rmw: vec![None; n],
                alone: None,
                storm: None,
                alone_total: 0,
                load_log: vec![vec![]; n],
                calls: vec![],
                open_call: vec![None; n],
                cur_call_name: vec![None; n],
                finished: 0,
                max_steps,
                directive: vec![Directive::Proceed; n],
                in_call: vec![None; n],
                spin_obs: vec![],
            }),
            cvs: (0..n).map(|_| Condvar::new()).collect(),
            done: Condvar::new(),
        })
    }

    fn enabled(st: &ExecState, t: usize, p: &Pending) -> bool {
        match p.kind {
            PKind::Sync(OpKind::MutexLock) => st.locks.get(&p.addr).map(|l| l.writer.is_none()).unwrap_or(true),
            PKind::Sync(OpKind::RwRead) => st.locks.get(&p.addr).map(|l| l.writer.is_none()).unwrap_or(true),
            PKind::Sync(OpKind::RwWrite) => st.locks.get(&p.addr).map(|l| l.writer.is_none() && l.readers == 0).unwrap_or(true),
            // A loop that only loads (`while a.load() + b.load() < n {}`): once the thread has gone round twice reading the
            // same values, another round is a stutter step until one of the cells it reads changes.
            PKind::Sync(OpKind::Load) => {
                let log = &st.load_log[t];
                for period in 1..=8usize {
                    if log.len() < 2 * period {
                        break;
                    }
                    let (a, b) = (&log[log.len() - period..], &log[log.len() - 2 * period..log.len() - period]);
                    if a.iter().zip(b.iter()).all(|(x, y)| x.0 == y.0 && x.1 == y.1) && a[0].0 == p.addr {
                        return a.iter().any(|(addr, val, peek)| peek(*addr) != *val);
                    }
                }
                true
            }
            // `while cell.swap(0) == 0 {}`: the same read-modify-write again, after it found and left the cell at one value:
            // a stutter step until the cell holds something else
            PKind::Sync(k @ (OpKind::Swap | OpKind::FetchAdd | OpKind::FetchSub | OpKind::FetchAnd | OpKind::FetchOr | OpKind::FetchXor | OpKind::FetchMax | OpKind::FetchMin)) => match st.last_idle_rmw[t] {
                Some((k0, a, operand, found)) if k0 == k && a == p.addr && operand == p.operand => (p.peek)(p.addr) != found,
                _ => true,
            },
            PKind::Sync(OpKind::CmpXchg { .. }) => match st.last_failed_cas[t] {
                // The same compare-exchange again, right after it really failed, while the cell still holds the value
                // that made it fail: it would fail identically (a stutter step), so the thread waits for the cell to
                // change. A spurious failure (returned value == expected) or a cell that has changed since does not wait.
                Some((a, e, actual)) if a == p.addr && e == p.expected && actual != e => (p.peek)(p.addr) != actual,
                _ => true,
            },
            _ => true,
        }
    }

    /// Make a scheduling decision. Called with the lock held by the thread that
    /// just parked or finished; all other threads are parked or finished.
    fn decide(&self, st: &mut ExecState) {
        if st.abort.is_some() {
            self.wake_all(st);
            return;
        }
        let n = st.status.len();
        // all threads must have arrived at their first scheduling point
        if st.status.iter().any(|s| matches!(s, TStatus::NotStarted | TStatus::Running)) {
            return;
        }
        let mut pend: Vec<Option<Pending>> = vec![None; n];
        let mut enabled = vec![];
        let mut stutter: Vec<(usize, String)> = vec![];
        for t in 0..n {
            if let TStatus::Parked(p) = &st.status[t] {
                let mut p2 = *p;
                if matches!(p.kind, PKind::Sync(OpKind::Load)) {
                    // record the cells of a detected load-only cycle (see `enabled`)
                    let log = &st.load_log[t];
                    for period in 2..=8usize {
                        if log.len() < 2 * period {
                            break;
                        }
                        let (a, b) = (&log[log.len() - period..], &log[log.len() - 2 * period..log.len() - period]);
                        if a.iter().zip(b.iter()).all(|(x, y)| x.0 == y.0 && x.1 == y.1) && a[0].0 == p.addr {
                            for (i, e) in a.iter().enumerate() {
                                p2.watch[i] = e.0;
                            }
                            break;
                        }
                    }
                }
                let p = &p2;
                pend[t] = Some(*p);
                if Self::enabled(st, t, p) {
                    enabled.push(t);
                } else if !p.is_lock_op() && matches!(p.kind, PKind::Sync(_)) {
                    stutter.push((t, format!("{:?}@{}", p.kind, st.in_call[t].clone().unwrap_or_default())));
                    // waiting oracle: remember what the others were doing while t spins
                    let obs = (t, st.in_call[t].clone().unwrap_or_default(), st.in_call.clone());
                    if st.spin_obs.len() < 64 {
                        st.spin_obs.push(obs);
                    }
                }
            }
        }
        // a spurious-failure storm keeps its thread running, alone, for as long as it repeats its retry loop
        if let Some(mut sm) = st.storm.take() {
            let t = sm.t;
            let mut step: Option<Directive> = None;
            if let (Some(p), true) = (pend[t], enabled.contains(&t)) {
                if matches!(p.kind, PKind::Sync(OpKind::CmpXchg { weak: true })) {
                    if sm.fails < STORM_MAX && (!sm.learned || sm.pos == sm.body.len()) {
                        sm.learned = true;
                        sm.pos = 0;
                        sm.fails += 1;
                        step = Some(Directive::SpuriousFail);
                    }
                } else if matches!(p.kind, PKind::Sync(_)) && !p.is_lock_op() {
                    let key = (format!("{:?}", p.kind), p.addr);
                    if !sm.learned {
                        if sm.body.len() < STORM_BODY_MAX {
                            sm.body.push(key);
                            step = Some(Directive::Proceed);
                        }
                    } else if sm.pos < sm.body.len() && sm.body[sm.pos] == key {
                        sm.pos += 1;
                        step = Some(Directive::Proceed);
                    }
                }
            }
            if let Some(d) = step {
                // an automatic step: no node, no alternatives, no position in the schedule
                st.storm = Some(sm);
                st.alone_total += 1;
                st.directive[t] = d;
                st.current = Some(t);
                st.prev = Some(t);
                self.cvs[t].notify_one();
                return;
            }
        }
        // a thread spinning on alone (give-up deviation) keeps running, and only it, until it leaves its loop
        if let Some((t, key, steps)) = st.alone.clone() {
            if stutter.iter().any(|(u, _)| *u == t) {
                if steps >= GIVE_UP_LIMIT {
                    st.abort = Some(Abort::UnboundedSpin(key));
                    self.wake_all(st);
                    return;
                }
                // an automatic step: no node, no alternatives, no position in the schedule
                st.alone = Some((t, key, steps + 1));
                st.alone_total += 1;
                st.directive[t] = Directive::Proceed;
                st.current = Some(t);
                st.prev = Some(t);
                self.cvs[t].notify_one();
                return;
            } else {
                st.alone = None;
            }
        }
        if enabled.is_empty() && st.finished < n {
            // Nothing can run but a thread waits under the stutter rule: the rule assumes an unbounded retry loop, which
            // a bounded one (try three times, then give up) is not. Let the lowest such thread take its failing step,
            // without branching; a loop that really never ends reaches the step horizon instead.
            if let Some(t) = (0..n).find(|&t| matches!(pend[t], Some(p) if !p.is_lock_op() && matches!(p.kind, PKind::Sync(_)))) {
                st.forced_stutter += 1;
                if st.forced_stutter <= GIVE_UP_LIMIT {
                    enabled.push(t);
                }
            }
        } else {
            st.forced_stutter = 0;
        }
        if enabled.is_empty() {
            if st.finished == n {
                self.done.notify_all();
                return;
            }
            let blocked: Vec<String> = (0..n)
                .filter_map(|t| pend[t].map(|p| format!("T{} blocked at {:?} addr {:#x} in {:?}", t, p.kind, p.addr, st.in_call[t])))
                .collect();
            st.abort = Some(Abort::Deadlock(blocked.join("; ")));
            self.wake_all(st);
            return;
        }
        if st.steps.len() - st.alone_total.min(st.steps.len()) >= st.max_steps {
            st.abort = Some(Abort::Horizon);
            self.wake_all(st);
            return;
        }
        let pos = st.nodes.len();
        if pos == st.prefix.len() && st.use_sleep {
            st.sleep = std::mem::take(&mut st.sleep_after_prefix);
        }
        let mut spurious = false;
        let mut give_up = false;
        let mut storm = false;
        let chosen = if pos < st.prefix.len() {
            let mut c = st.prefix[pos];
            if c >= 3 * n {
                c -= 3 * n;
                spurious = true;
                storm = true;
            } else if c >= 2 * n {
                // give-up deviation: this waiting thread spins on alone
                c -= 2 * n;
                match stutter.iter().find(|(u, _)| *u == c) {
                    Some((_, key)) => {
                        st.alone = Some((c, key.clone(), 1));
                        give_up = true;
                        enabled.push(c);
                    }
                    None => {
                        st.abort = Some(Abort::ReplayDivergence(format!("node {}: thread {} is not waiting in a loop", pos, c)));
                        self.wake_all(st);
                        return;
                    }
                }
            } else if c >= n {
                c -= n;
                spurious = true;
            }
            if !enabled.contains(&c) {
                st.abort = Some(Abort::ReplayDivergence(format!("node {}: thread {} not enabled (enabled {:?})", pos, c, enabled)));
                self.wake_all(st);
                return;
            }
            c
        } else {
            let cand: Vec<usize> = enabled.iter().cloned().filter(|t| !st.sleep.contains(t)).collect();
            if cand.is_empty() {
                st.abort = Some(Abort::SleepBlocked);
                self.wake_all(st);
                return;
            }
            match st.prev {
                Some(p) if cand.contains(&p) => p,
                _ => cand[0],
            }
        };
        let weak_cas: Vec<usize> = enabled.iter().cloned().filter(|t| matches!(pend[*t].map(|p| p.kind), Some(PKind::Sync(OpKind::CmpXchg { weak: true })))).collect();
        if spurious && !weak_cas.contains(&chosen) {
            st.abort = Some(Abort::ReplayDivergence(format!("node {}: thread {} has no pending weak CAS to fail spuriously", pos, chosen)));
            self.wake_all(st);
            return;
        }
        st.directive[chosen] = if spurious { Directive::SpuriousFail } else { Directive::Proceed };
        if storm {
            st.storm = Some(Storm { t: chosen, body: vec![], learned: false, pos: 0, fails: 1 });
        }
        if give_up {
            // recorded as a node without scheduling alternatives
            enabled = vec![chosen];
        }
        st.nodes.push(Node { enabled: enabled.clone(), pending: pend.clone(), chosen, prev: st.prev, sleep: st.sleep.clone(), spurious, weak_cas: if give_up { vec![] } else { weak_cas }, stutter: if give_up { vec![] } else { stutter }, give_up, storm });
        // sleep-set propagation along the executed transition
        if st.use_sleep && pos >= st.prefix.len() {
            let cp = pend[chosen].unwrap();
            st.sleep.retain(|u| pend[*u].map(|pu| independent(&pu, &cp)).unwrap_or(false));
        }
        st.current = Some(chosen);
        st.prev = Some(chosen);
        self.cvs[chosen].notify_one();
    }

    fn wake_all(&self, _st: &mut ExecState) {
        for cv in &self.cvs {
            cv.notify_all();
        }
        self.done.notify_all();
    }

    /// Park the calling thread at a scheduling point until it is chosen.
    fn sched_point(&self, me: usize, p: Pending) -> Directive {
        if std::thread::panicking() {
            return Directive::Proceed;
        }
        let mut st = self.st.lock().unwrap();
        if st.abort.is_some() {
            drop(st);
            std::panic::resume_unwind(Box::new(Aborted));
        }
        if !matches!(p.kind, PKind::Sync(_)) {
            st.load_log[me].clear();
        }
        st.status[me] = TStatus::Parked(p);
        st.current = None;
        self.decide(&mut st);
        loop {
            if st.abort.is_some() {
                drop(st);
                std::panic::resume_unwind(Box::new(Aborted));
            }
            if st.current == Some(me) {
                break;
            }
            st = self.cvs[me].wait(st).unwrap();
        }
        st.status[me] = TStatus::Running;
        let call = st.cur_call_name[me].clone();
        st.steps.push(StepRec { thread: me, kind: p.kind, addr: p.addr, ord: p.ord, ord_fail: p.ord_fail, operand: p.operand, expected: p.expected, outcome: None, call });
        std::mem::replace(&mut st.directive[me], Directive::Proceed)
    }

    fn finish_thread(&self, me: usize, panic_msg: Option<String>) {
        let mut st = self.st.lock().unwrap();
        st.status[me] = TStatus::Finished;
        st.finished += 1;
        st.in_call[me] = None;
        if let Some(m) = panic_msg {
            if st.abort.is_none() {
                st.abort = Some(Abort::BodyPanic(format!("T{}: {}", me, m)));
            }
        }
        st.current = None;
        if st.abort.is_some() {
            self.wake_all(&mut st);
            if st.finished == st.status.len() {
                self.done.notify_all();
            }
            return;
        }
        self.decide(&mut st);
        if st.finished == st.status.len() {
            self.done.notify_all();
        }
    }
}

/// Per-thread hook object installed into the prometheus crate.
pub struct ThreadHook {
    exec: Arc<Exec>,
    me: usize,
}

impl SyncHook for ThreadHook {
    fn before(&self, op: &Op) -> Directive {
        self.exec.sched_point(self.me, Pending::from_op(op))
    }

    fn after(&self, op: &Op, out: &Outcome) {
        if std::thread::panicking() {
            return;
        }
        let mut st = self.exec.st.lock().unwrap();
        if st.abort.is_some() {
            return;
        }
        let me = self.me;
        if let Some(s) = st.steps.last_mut() {
            if s.thread == me && s.outcome.is_none() {
                s.outcome = Some(*out);
            }
        }
        st.last_failed_cas[me] = None;
        st.last_idle_rmw[me] = match (op.kind, out) {
            (OpKind::Swap | OpKind::FetchAdd | OpKind::FetchSub | OpKind::FetchAnd | OpKind::FetchOr | OpKind::FetchXor | OpKind::FetchMax | OpKind::FetchMin, Outcome::Prev(v)) if (op.peek)(op.addr) == *v => {
                Some((op.kind, op.addr, op.operand, *v))
            }
            _ => None,
        };
        match (op.kind, out) {
            (OpKind::Load, Outcome::Prev(v)) => {
                let log = &mut st.load_log[me];
                log.push((op.addr, *v, op.peek));
                if log.len() > 64 {
                    log.drain(..32);
                }
            }
            _ => st.load_log[me].clear(),
        }
        match op.kind {
            OpKind::CmpXchg { .. } => {
                if let Outcome::CasFail(actual) = out {
                    st.last_failed_cas[me] = Some((op.addr, op.expected, *actual));
                }
            }
            OpKind::MutexLock | OpKind::RwWrite => {
                st.locks.entry(op.addr).or_default().writer = Some(me);
            }
            OpKind::MutexTryLock | OpKind::RwTryWrite => {
                if *out != Outcome::TryFailed {
                    st.locks.entry(op.addr).or_default().writer = Some(me);
                }
            }
            OpKind::MutexUnlock | OpKind::RwUnlockWrite => {
                st.locks.entry(op.addr).or_default().writer = None;
            }
            OpKind::RwRead => {
                st.locks.entry(op.addr).or_default().readers += 1;
            }
            OpKind::RwTryRead => {
                if *out != Outcome::TryFailed {
                    st.locks.entry(op.addr).or_default().readers += 1;
                }
            }
            OpKind::RwUnlockRead => {
                let l = st.locks.entry(op.addr).or_default();
                l.readers = l.readers.saturating_sub(1);
            }
            _ => {}
        }
    }
}

/// Handed to thread bodies to record API calls.
pub struct Recorder {
    exec: Arc<Exec>,
    me: usize,
}

impl Recorder {
    pub fn thread(&self) -> usize {
        self.me
    }

    /// Perform one API call: CallBegin, the call, CallEnd; record it.
    pub fn call(&self, name: &str, arg: Val, f: impl FnOnce() -> Val) -> Val {
        {
            let mut st = self.exec.st.lock().unwrap();
            st.cur_call_name[self.me] = Some(name.to_string());
        }
        self.exec.sched_point(self.me, Pending::pseudo(PKind::CallBegin));
        let inv = {
            let mut st = self.exec.st.lock().unwrap();
            st.in_call[self.me] = Some(name.to_string());
            st.steps.len() - 1
        };
        let ret = f();
        self.exec.sched_point(self.me, Pending::pseudo(PKind::CallEnd));
        let mut st = self.exec.st.lock().unwrap();
        let res = st.steps.len() - 1;
        st.in_call[self.me] = None;
        st.cur_call_name[self.me] = None;
        st.calls.push(Call { thread: self.me, name: name.to_string(), arg, ret: ret.clone(), inv, res });
        ret
    }
}

/// Result of one complete (or aborted) execution.
pub struct Execution {
    pub nodes: Vec<Node>,
    pub steps: Vec<StepRec>,
    pub calls: Vec<Call>,
    pub abort: Option<Abort>,
    pub spin_obs: Vec<(usize, String, Vec<Option<String>>)>,
}

impl Execution {
    /// Choice list (replay artefact): thread id, or `threads + id` for "this thread, and its weak CAS fails spuriously".
    pub fn choices(&self) -> Vec<usize> {
        let n = self.nodes.first().map(|x| x.pending.len()).unwrap_or(0);
        self.nodes.iter().map(|x| if x.storm { 3 * n + x.chosen } else if x.give_up { 2 * n + x.chosen } else if x.spurious { n + x.chosen } else { x.chosen }).collect()
    }
    pub fn deviations(&self) -> usize {
        self.nodes.iter().filter(|x| x.spurious).count()
    }
    pub fn preemptions(&self) -> usize {
        self.nodes.iter().filter(|n| matches!(n.prev, Some(p) if p != n.chosen && n.enabled.contains(&p))).count()
    }
    pub fn trace_json(&self, names: &HashMap<usize, String>) -> Value {
        Value::Array(
            self.steps
                .iter()
                .enumerate()
                .map(|(i, s)| {
                    json!({"step": i, "thread": s.thread, "call": s.call, "op": format!("{:?}", s.kind),
                       "cell": names.get(&s.addr).cloned().unwrap_or_else(|| if s.addr == 0 { String::new() } else { format!("{:#x}", s.addr) }),
                       "ord": format!("{:?}", s.ord), "operand": s.operand, "result": s.outcome.map(|o| format!("{:?}", o))})
                })
                .collect(),
        )
    }
}

// ------------------------------------------------------------------ drivers

/// A multi-threaded driver explored by E1.
pub trait Driver: Sync + Send {
    type Shared: Send + Sync + 'static;
    fn name(&self) -> String;
    fn threads(&self) -> usize;
    /// Build fresh shared objects (runs unhooked, before the threads start).
    fn setup(&self) -> Self::Shared;
    /// Body of thread `t`.
    fn body(&self, t: usize, sh: &Self::Shared, rec: &Recorder);
    /// Judge one complete execution (runs unhooked after all threads finished).
    /// `Ok(outcome class)` or `Err((signature, what))`.
    fn check(&self, sh: &Self::Shared, x: &Execution) -> Result<String, (String, String)>;
    /// Names for cell addresses (for traces).
    fn cell_names(&self, _sh: &Self::Shared) -> HashMap<usize, String> {
        HashMap::new()
    }
    /// Serialised driver (rebuilt by `--replay`).
    fn spec(&self) -> Value {
        Value::Null
    }
    /// Quiescent reads after all threads have finished. Runs on a pool thread
    /// *under the scheduler* (so a call that would spin forever is reported as a
    /// deadlock instead of hanging the check); its calls are appended to the
    /// history with thread id 99 and positions after every other call.
    fn epilogue(&self, _sh: &Self::Shared, _rec: &Recorder) {}
}

type Job = Box<dyn FnOnce() + Send>;

/// A pool of OS threads reused across executions.
pub struct Pool {
    txs: Vec<mpsc::Sender<Job>>,
}

impl Pool {
    pub fn new(n: usize) -> Pool {
        let mut txs = vec![];
        for i in 0..n {
            let (tx, rx) = mpsc::channel::<Job>();
            std::thread::Builder::new()
                .name(format!("vsched-{}", i))
                .spawn(move || {
                    while let Ok(job) = rx.recv() {
                        job();
                    }
                })
                .unwrap();
            txs.push(tx);
        }
        Pool { txs }
    }
}

/// Run one execution of `driver` following `prefix` (then default choices).
pub fn run_one<D: Driver + 'static>(
    driver: &Arc<D>,
    pool: &Pool,
    prefix: &[usize],
    sleep_after_prefix: &[usize],
    use_sleep: bool,
    max_steps: usize,
) -> (Execution, Arc<D::Shared>) {
    let n = driver.threads();
    crate::E1_USED.store(true, MemOrd::Relaxed);
    let exec = Exec::new(n, prefix.to_vec(), sleep_after_prefix.to_vec(), use_sleep, max_steps);
    // setup runs unhooked on the explorer thread; a panic there is reported as a violation by the caller
    let shared = Arc::new(driver.setup());
    for t in 0..n {
        let exec2 = exec.clone();
        let d = driver.clone();
        let sh = shared.clone();
        let job: Job = Box::new(move || {
            let hook = Arc::new(ThreadHook { exec: exec2.clone(), me: t });
            set_thread_hook(Some(hook));
            let rec = Recorder { exec: exec2.clone(), me: t };
            let r = std::panic::catch_unwind(std::panic::AssertUnwindSafe(|| {
                exec2.sched_point(t, Pending::pseudo(PKind::Start));
                d.body(t, &sh, &rec);
            }));
            set_thread_hook(None);
            let msg = match r {
                Ok(()) => None,
                Err(p) => {
                    if p.downcast_ref::<Aborted>().is_some() {
                        None
                    } else if let Some(s) = p.downcast_ref::<&str>() {
                        Some(s.to_string())
                    } else if let Some(s) = p.downcast_ref::<String>() {
                        Some(s.clone())
                    } else {
                        Some("panic".to_string())
                    }
                }
            };
            drop(rec);
            drop(sh);
            exec2.finish_thread(t, msg);
        });
        pool.txs[t].send(job).unwrap();
    }
    let mut st = exec.st.lock().unwrap();
    let mut last_seen = (usize::MAX, usize::MAX);
    while st.finished < n {
        let (g, to) = exec.done.wait_timeout(st, std::time::Duration::from_secs(HANG_LIMIT_S)).unwrap();
        st = g;
        if to.timed_out() && st.finished < n {
            let now = (st.steps.len(), st.finished);
            if now == last_seen {
                // The scheduler only sees hooked operations. A thread that blocks on (or spins over) something that is
                // not routed through the hooks never comes back to it: this engine cannot decide anything about such code.
                let running: Vec<String> = (0..n)
                    .filter(|&t| matches!(st.status[t], TStatus::Running))
                    .map(|t| format!("T{} (in {:?})", t, st.in_call[t]))
                    .collect();
                eprintln!(
                    "MACHINERY: driver {}: no scheduling point reached for {} s; running: [{}]. The code under test blocks or loops \
                     on a primitive that is not routed through the verification hooks (see HOOK-COVERAGE lines, /repo/src/verif.rs).",
                    driver.name(),
                    HANG_LIMIT_S,
                    running.join(", ")
                );
                for l in crate::hook_audit() {
                    eprintln!("HOOK-COVERAGE: {}", l);
                }
                std::process::exit(2);
            }
            last_seen = now;
        }
    }
    let mut x = Execution {
        nodes: std::mem::take(&mut st.nodes),
        steps: std::mem::take(&mut st.steps),
        calls: std::mem::take(&mut st.calls),
        abort: st.abort.clone(),
        spin_obs: std::mem::take(&mut st.spin_obs),
    };
    drop(st);
    if x.abort.is_none() && std::env::var("VSCHED_NO_EPILOGUE").is_err() {
        // epilogue phase: one thread, still under the scheduler
        let exec2 = Exec::new(1, vec![], vec![], false, max_steps);
        let e3 = exec2.clone();
        let d = driver.clone();
        let sh = shared.clone();
        // a single thread never waits for anybody, so the phase can run right here on the explorer thread
        {
            let hook = Arc::new(ThreadHook { exec: e3.clone(), me: 0 });
            set_thread_hook(Some(hook));
            let rec = Recorder { exec: e3.clone(), me: 0 };
            let r = std::panic::catch_unwind(std::panic::AssertUnwindSafe(|| {
                e3.sched_point(0, Pending::pseudo(PKind::Start));
                d.epilogue(&sh, &rec);
            }));
            set_thread_hook(None);
            let msg = match r {
                Ok(()) => None,
                Err(p) => {
                    if p.downcast_ref::<Aborted>().is_some() {
                        None
                    } else {
                        Some(p.downcast_ref::<String>().cloned().or_else(|| p.downcast_ref::<&str>().map(|s| s.to_string())).unwrap_or_else(|| "panic".into()))
                    }
                }
            };
            drop(rec);
            drop(sh);
            e3.finish_thread(0, msg);
        }
        let mut st2 = exec2.st.lock().unwrap();
        let base = x.steps.len() + 1;
        for mut c in std::mem::take(&mut st2.calls) {
            c.thread = 99;
            c.inv += base;
            c.res += base;
            x.calls.push(c);
        }
        if let Some(a) = st2.abort.clone() {
            x.abort = Some(match a {
                Abort::Deadlock(m) => Abort::Deadlock(format!("in the quiescent reads after all threads finished: {}", m)),
                other => other,
            });
        }
        // epilogue steps are appended to the trace (thread shown as 99)
        for mut srec in std::mem::take(&mut st2.steps) {
            srec.thread = 99;
            x.steps.push(srec);
        }
    }
    (x, shared)
}

// ----------------------------------------------------------------- explorer

#[derive(Clone, Copy, Debug, PartialEq)]
pub enum Mode {
    /// unbounded, sleep sets
    U,
    /// preemption bound, no reduction
    B(usize),
}

pub struct ExploreResult {
    pub executions: u64,
    pub sleep_blocked: u64,
    pub steps: u64,
    pub nodes: u64,
    pub outcomes: std::collections::BTreeSet<String>,
    pub violations: Vec<(String, String, Value)>,
    pub cap_hit: bool,
    pub machinery_error: Option<String>,
    pub max_preemptions_seen: usize,
    pub sample: Option<Value>,
}

/// Keep one violation per signature (the one with the fewest preemptions); `doc` is only built when it is kept.
fn record_violation(list: &mut Vec<(String, String, Value)>, sig: String, what: String, preemptions: u64, doc: impl FnOnce() -> Value) {
    match list.iter_mut().find(|v| v.0 == sig) {
        Some(e) => {
            if preemptions < e.2["preemptions"].as_u64().unwrap_or(0) {
                *e = (sig, what, doc());
            }
        }
        None => list.push((sig, what, doc())),
    }
}

struct Work {
    prefix: Vec<usize>,
    sleep: Vec<usize>,
    preemptions: usize,
}

struct Shared2 {
    queue: Mutex<(Vec<Work>, usize)>, // (stack, workers busy)
    cv: Condvar,
}

/// Number of spurious weak-CAS failures allowed per execution (0 or 1), set by the check binaries.
pub static SPURIOUS_BUDGET: std::sync::atomic::AtomicUsize = std::sync::atomic::AtomicUsize::new(0);

/// Explore all schedules of `driver` in the given mode, in parallel.
pub fn explore<D: Driver + 'static>(driver: D, mode: Mode, max_execs: u64, workers: usize) -> ExploreResult {
    let driver = Arc::new(driver);
    let q = Arc::new(Shared2 { queue: Mutex::new((vec![Work { prefix: vec![], sleep: vec![], preemptions: 0 }], 0)), cv: Condvar::new() });
    let total = Arc::new(std::sync::atomic::AtomicU64::new(0));
    let results: Arc<Mutex<ExploreResult>> = Arc::new(Mutex::new(ExploreResult {
        executions: 0,
        sleep_blocked: 0,
        steps: 0,
        nodes: 0,
        outcomes: Default::default(),
        violations: vec![],
        cap_hit: false,
        machinery_error: None,
        max_preemptions_seen: 0,
        sample: None,
    }));
    let use_sleep = mode == Mode::U;
    let mut handles = vec![];
    for _w in 0..workers {
        let driver = driver.clone();
        let q = q.clone();
        let total = total.clone();
        let results = results.clone();
        handles.push(std::thread::spawn(move || {
            let pool = Pool::new(driver.threads());
            let mut local = ExploreResult {
                executions: 0,
                sleep_blocked: 0,
                steps: 0,
                nodes: 0,
                outcomes: Default::default(),
                violations: vec![],
                cap_hit: false,
                machinery_error: None,
                max_preemptions_seen: 0,
                sample: None,
            };
            loop {
                let work = {
                    let mut g = q.queue.lock().unwrap();
                    loop {
                        if let Some(w) = g.0.pop() {
                            g.1 += 1;
                            break Some(w);
                        }
                        if g.1 == 0 {
                            q.cv.notify_all();
                            break None;
                        }
                        g = q.cv.wait(g).unwrap();
                    }
                };
                let work = match work {
                    Some(w) => w,
                    None => break,
                };
                let mut children: Vec<Work> = vec![];
                if total.fetch_add(1, MemOrd::Relaxed) >= max_execs {
                    local.cap_hit = true;
                } else {
                    let ran = std::panic::catch_unwind(std::panic::AssertUnwindSafe(|| {
                        let (x, sh) = run_one(&driver, &pool, &work.prefix, &work.sleep, use_sleep, 4000);
                        let verdict = if x.abort.is_none() { Some(driver.check(&sh, &x)) } else { None };
                        (x, sh, verdict)
                    }));
                    let (x, sh, mut verdict) = match ran {
                        Ok(t) => t,
                        Err(p) => {
                            let msg = p.downcast_ref::<String>().cloned().or_else(|| p.downcast_ref::<&str>().map(|s| s.to_string())).unwrap_or_default();
                            local.executions += 1;
                            local.violations.push((
                                format!("panic-in-setup-or-quiescent-check:{}", driver.name().split(' ').next().unwrap_or("")),
                                format!("{}: sequential setup / quiescent reads panicked: {}", driver.name(), msg),
                                json!({"engine": "vsched", "driver": driver.name(), "schedule": work.prefix, "detail": msg}),
                            ));
                            let mut g = q.queue.lock().unwrap();
                            g.1 -= 1;
                            q.cv.notify_all();
                            continue;
                        }
                    };
                    local.steps += x.steps.len() as u64;
                    local.nodes += (x.nodes.len().saturating_sub(work.prefix.len())) as u64;
                    let names = driver.cell_names(&sh);
                    let replay_doc = |x: &Execution, detail: &str| {
                        json!({"engine": "vsched", "driver": driver.name(), "driver_spec": driver.spec(), "mode": format!("{:?}", mode), "schedule": x.choices(), "preemptions": x.preemptions(),
                               "detail": detail, "calls": x.calls.iter().map(|c| c.show()).collect::<Vec<_>>(), "trace": x.trace_json(&names)})
                    };
                    match &x.abort {
                        Some(Abort::SleepBlocked) => {
                            local.sleep_blocked += 1;
                        }
                        Some(Abort::ReplayDivergence(m)) => {
                            local.machinery_error = Some(format!("replay divergence in {}: {}", driver.name(), m));
                        }
                        Some(Abort::Deadlock(m)) => {
                            local.executions += 1;
                            record_violation(&mut local.violations, format!("deadlock:{}", driver.name()), format!("{}: deadlock: {}", driver.name(), m), x.preemptions() as u64, || replay_doc(&x, m));
                        }
                        Some(Abort::Horizon) => {
                            local.executions += 1;
                            record_violation(&mut local.violations, format!("no-termination:{}", driver.name()), format!("{}: execution exceeded the step horizon (livelock)", driver.name()), x.preemptions() as u64, || replay_doc(&x, "horizon"));
                        }
                        Some(Abort::UnboundedSpin(key)) => {
                            local.sleep_blocked += 1;
                            let mut g = UNBOUNDED_LOOPS.lock().unwrap();
                            if !g.contains(key) {
                                g.push(key.clone());
                            }
                        }
                        Some(Abort::BodyPanic(m)) => {
                            local.executions += 1;
                            record_violation(&mut local.violations, format!("panic:{}", driver.name()), format!("{}: thread body panicked: {}", driver.name(), m), x.preemptions() as u64, || replay_doc(&x, m));
                        }
                        None => {
                            local.executions += 1;
                            local.max_preemptions_seen = local.max_preemptions_seen.max(x.preemptions());
                            match verdict.take().unwrap() {
                                Ok(class) => {
                                    if local.sample.is_none() {
                                        local.sample = Some(json!({"driver": driver.name(), "schedule": x.choices(), "calls": x.calls.iter().map(|c| c.show()).collect::<Vec<_>>(), "outcome": class}));
                                    }
                                    local.outcomes.insert(class);
                                }
                                Err((sig, _)) if local.violations.iter().any(|v| v.0 == sig && v.2["preemptions"].as_u64().unwrap_or(0) <= x.preemptions() as u64) => {
                                    // a violation of this kind with no more preemptions is already recorded
                                }
                                Err((sig, what)) => {
                                    // determinism: the same schedule must fail the same way again
                                    let (x2, sh2) = run_one(&driver, &pool, &x.choices(), &[], false, 4000);
                                    let same_calls = x2.abort.is_none() && x2.calls.iter().map(|c| c.show()).collect::<Vec<_>>() == x.calls.iter().map(|c| c.show()).collect::<Vec<_>>();
                                    let again = if same_calls { driver.check(&sh2, &x2).err().map(|e| e.0) } else { None };
                                    if again.as_deref() != Some(sig.as_str()) {
                                        local.machinery_error = Some(format!("replay of a failing schedule diverged in {} (first: {}, second: {:?} / abort {:?})", driver.name(), sig, again, x2.abort));
                                    }
                                    record_violation(&mut local.violations, sig, format!("{}: {}", driver.name(), what.clone()), x.preemptions() as u64, || replay_doc(&x, &what));
                                }
                            }
                        }
                    }
                    // children: alternatives at every node beyond the prefix
                    if x.abort.is_none() || matches!(x.abort, Some(Abort::SleepBlocked) | Some(Abort::Deadlock(_))) {
                        let choices = x.choices();
                        let mut pre = 0usize; // preemptions among nodes before i (recounted from the start)
                        for i in 0..x.nodes.len() {
                            let node = &x.nodes[i];
                            let is_preempt = |alt: usize| matches!(node.prev, Some(p) if p != alt && node.enabled.contains(&p));
                            if i >= work.prefix.len() {
                                match mode {
                                    Mode::B(bound) => {
                                        for &alt in &node.enabled {
                                            if alt == node.chosen {
                                                continue;
                                            }
                                            let cost = pre + if is_preempt(alt) { 1 } else { 0 };
                                            if cost > bound {
                                                continue;
                                            }
                                            let mut p = choices[..i].to_vec();
                                            p.push(alt);
                                            children.push(Work { prefix: p, sleep: vec![], preemptions: cost });
                                        }
                                    }
                                    Mode::U => {
                                        // order: the chosen thread first, then the other awake enabled threads
                                        let mut done: Vec<usize> = node.sleep.clone();
                                        done.push(node.chosen);
                                        for &alt in &node.enabled {
                                            if alt == node.chosen || node.sleep.contains(&alt) {
                                                continue;
                                            }
                                            let ap = node.pending[alt].unwrap();
                                            let sl: Vec<usize> = done
                                                .iter()
                                                .cloned()
                                                .filter(|u| node.pending[*u].map(|pu| independent(&pu, &ap)).unwrap_or(false))
                                                .collect();
                                            let mut p = choices[..i].to_vec();
                                            p.push(alt);
                                            children.push(Work { prefix: p, sleep: sl, preemptions: 0 });
                                            done.push(alt);
                                        }
                                    }
                                }
                            }
                            // deviation: a spurious failure of a pending weak CAS (no reduction below it)
                            if i >= work.prefix.len() && x.nodes[..i].iter().filter(|m| m.spurious).count() < SPURIOUS_BUDGET.load(MemOrd::Relaxed) && !node.spurious {
                                let nthreads = node.pending.len();
                                for &t in &node.weak_cas {
                                    let cost = pre + if is_preempt(t) { 1 } else { 0 };
                                    if let Mode::B(bound) = mode {
                                        if cost > bound {
                                            continue;
                                        }
                                    }
                                    let mut p = choices[..i].to_vec();
                                    p.push(nthreads + t);
                                    children.push(Work { prefix: p, sleep: vec![], preemptions: cost });
                                    if STORM.load(MemOrd::Relaxed) {
                                        // the same failure, followed by a storm of further spurious failures
                                        let mut p = choices[..i].to_vec();
                                        p.push(3 * nthreads + t);
                                        children.push(Work { prefix: p, sleep: vec![], preemptions: cost });
                                    }
                                }
                            }
                            // deviation: a thread waiting in a loop spins on alone until the loop gives up (no reduction below it)
                            if i >= work.prefix.len() && !node.stutter.is_empty() && x.nodes[..i].iter().filter(|m| m.give_up).count() < GIVE_UP_BUDGET.load(MemOrd::Relaxed) {
                                let nthreads = node.pending.len();
                                let known: Vec<String> = UNBOUNDED_LOOPS.lock().unwrap().clone();
                                for (t, key) in &node.stutter {
                                    if known.contains(key) {
                                        continue;
                                    }
                                    let cost = pre + if is_preempt(*t) { 1 } else { 0 };
                                    if let Mode::B(bound) = mode {
                                        if cost > bound {
                                            continue;
                                        }
                                    }
                                    let mut p = choices[..i].to_vec();
                                    p.push(2 * nthreads + *t);
                                    children.push(Work { prefix: p, sleep: vec![], preemptions: cost });
                                }
                            }
                            if is_preempt(node.chosen) {
                                pre += 1;
                            }
                        }
                    }
                }
                let mut g = q.queue.lock().unwrap();
                g.1 -= 1;
                if !local.cap_hit && local.machinery_error.is_none() {
                    g.0.extend(children);
                } else {
                    g.0.clear();
                }
                q.cv.notify_all();
            }
            let mut r = results.lock().unwrap();
            r.executions += local.executions;
            r.sleep_blocked += local.sleep_blocked;
            r.steps += local.steps;
            r.nodes += local.nodes;
            r.outcomes.extend(local.outcomes);
            r.cap_hit |= local.cap_hit;
            r.max_preemptions_seen = r.max_preemptions_seen.max(local.max_preemptions_seen);
            if r.machinery_error.is_none() {
                r.machinery_error = local.machinery_error;
            }
            if r.sample.is_none() {
                r.sample = local.sample;
            }
            for v in local.violations {
                if !r.violations.iter().any(|(s, _, _)| *s == v.0) {
                    r.violations.push(v);
                } else if let Some(e) = r.violations.iter_mut().find(|(s, _, _)| *s == v.0) {
                    // keep the replay with the fewest preemptions / shortest schedule
                    let better = v.2["preemptions"].as_u64().unwrap_or(99) < e.2["preemptions"].as_u64().unwrap_or(99);
                    if better {
                        *e = v;
                    }
                }
            }
        }));
    }
    for h in handles {
        h.join().unwrap();
    }
    Arc::try_unwrap(results).ok().unwrap().into_inner().unwrap()
}

/// Replay one schedule twice and return both executions' call histories.
pub fn replay_twice<D: Driver + 'static>(driver: D, schedule: &[usize]) -> (Execution, Execution, Result<String, (String, String)>) {
    let driver = Arc::new(driver);
    let pool = Pool::new(driver.threads());
    let (x1, sh1) = run_one(&driver, &pool, schedule, &[], false, 4000);
    let r1 = if x1.abort.is_none() { driver.check(&sh1, &x1) } else { Err(("abort".into(), format!("{:?}", x1.abort))) };
    let (x2, _sh2) = run_one(&driver, &pool, schedule, &[], false, 4000);
    (x1, x2, r1)
}

// ---------------------------------------------------------- linearizability

/// Sequential specification for the Wing–Gong checker.
pub trait SeqSpec {
    type State: Clone + std::hash::Hash + Eq;
    fn init(&self) -> Self::State;
    /// Apply `call` to `st`; `None` if the recorded return value is impossible in `st`.
    fn apply(&self, st: &Self::State, call: &Call) -> Option<Self::State>;
}

/// Is `calls` linearizable w.r.t. `spec`? Returns a witness order if so.
pub fn linearizable<S: SeqSpec>(spec: &S, calls: &[Call]) -> Option<Vec<usize>> {
    let n = calls.len();
    assert!(n <= 62);
    let mut seen: std::collections::HashSet<(u64, S::State)> = Default::default();
    let mut order = vec![];
    fn rec<S: SeqSpec>(
        spec: &S,
        calls: &[Call],
        done: u64,
        st: S::State,
        seen: &mut std::collections::HashSet<(u64, S::State)>,
        order: &mut Vec<usize>,
    ) -> bool {
        let n = calls.len();
        if done == (1u64 << n) - 1 {
            return true;
        }
        if !seen.insert((done, st.clone())) {
            return false;
        }
        for i in 0..n {
            if done & (1u64 << i) != 0 {
                continue;
            }
            // minimal: no other pending call returned before i was invoked
            let minimal = (0..n).all(|j| j == i || done & (1u64 << j) != 0 || !calls[j].precedes(&calls[i]));
            if !minimal {
                continue;
            }
            if let Some(ns) = spec.apply(&st, &calls[i]) {
                order.push(i);
                if rec(spec, calls, done | (1u64 << i), ns, seen, order) {
                    return true;
                }
                order.pop();
            }
        }
        false
    }
    if rec(spec, calls, 0, spec.init(), &mut seen, &mut order) {
        Some(order)
    } else {
        None
    }
}

// ------------------------------------------------------------ many drivers

/// Explore many (small) drivers, distributing whole drivers over `par` runner
/// threads (each exploration itself uses one worker). Falls back from Mode U to
/// Mode B(`fallback_bound`) for a driver that hits `cap` executions.
pub fn explore_many<D: Driver + 'static>(
    drivers: Vec<D>,
    mode: Mode,
    cap: u64,
    fallback_bound: usize,
    par: usize,
    rebuild: impl Fn(&D) -> D + Sync + Send,
) -> Vec<(String, Mode, ExploreResult)> {
    // VSCHED_ONLY=<substring of the driver name>: ad-hoc runs of a few drivers
    let only = std::env::var("VSCHED_ONLY").ok();
    let drivers: Vec<D> = drivers.into_iter().filter(|d| only.as_ref().map(|f| d.name().contains(f.as_str())).unwrap_or(true)).collect();
    let n = drivers.len();
    let queue = Arc::new(Mutex::new(drivers.into_iter().enumerate().collect::<Vec<_>>()));
    let out: Arc<Mutex<Vec<(usize, String, Mode, ExploreResult)>>> = Arc::new(Mutex::new(Vec::with_capacity(n)));
    std::thread::scope(|s| {
        for _ in 0..par {
            let queue = queue.clone();
            let out = out.clone();
            let rebuild = &rebuild;
            s.spawn(move || loop {
                let item = queue.lock().unwrap().pop();
                let (i, d) = match item {
                    Some(x) => x,
                    None => break,
                };
                let name = d.name();
                let copy = rebuild(&d);
                let mut used = mode;
                let mut r = explore(d, mode, cap, 1);
                if r.cap_hit && mode == Mode::U && r.violations.is_empty() {
                    used = Mode::B(fallback_bound);
                    r = explore(copy, used, cap * 4, 1);
                }
                if std::env::var("VSCHED_VERBOSE").is_ok() {
                    eprintln!("  {:?} {} execs (+{} blocked) cap_hit={} :: {}", used, r.executions, r.sleep_blocked, r.cap_hit, name);
                }
                out.lock().unwrap().push((i, name, used, r));
            });
        }
    });
    let mut v = Arc::try_unwrap(out).ok().unwrap().into_inner().unwrap();
    v.sort_by_key(|x| x.0);
    v.into_iter().map(|(_, n, m, r)| (n, m, r)).collect()
}

/// Fold exploration results into a report.
pub fn fold_results(rep: &mut crate::Report, results: Vec<(String, Mode, ExploreResult)>) -> Value {
    let mut per_mode: std::collections::BTreeMap<String, (u64, u64)> = Default::default();
    let mut fallbacks = vec![];
    for (name, mode, r) in results {
        rep.evaluations += r.executions;
        rep.traces += r.executions;
        rep.transitions += r.steps;
        rep.states += r.nodes;
        let e = per_mode.entry(format!("{:?}", mode)).or_insert((0, 0));
        e.0 += 1;
        e.1 += r.executions;
        if let Mode::B(_) = mode {
            fallbacks.push(name.clone());
        }
        for o in r.outcomes {
            rep.outcome(o);
        }
        if r.cap_hit {
            rep.cap_hit = Some(format!("execution cap hit in driver {}", name));
        }
        if let Some(m) = r.machinery_error {
            eprintln!("MACHINERY ERROR: {}", m);
            std::process::exit(2);
        }
        if let Some(s) = r.sample {
            rep.sample(s);
        }
        let sb = rep.extra.entry("sleep_blocked_executions".into()).or_insert(json!(0));
        *sb = json!(sb.as_u64().unwrap_or(0) + r.sleep_blocked);
        let mp = rep.extra.entry("max_preemptions_in_an_execution".into()).or_insert(json!(0));
        *mp = json!(mp.as_u64().unwrap_or(0).max(r.max_preemptions_seen as u64));
        for (sig, what, replay) in r.violations {
            rep.violation(sig, what, replay);
        }
    }
    json!({"drivers_and_executions_per_mode": per_mode, "drivers_run_in_mode_B": fallbacks.len()})
}


/// `--replay` support shared by the E1 checks: rebuild the driver from the
/// replay document, run the recorded schedule twice, print the trace and
/// return the exit code (0 conforms, 1 violation reproduced, 2 diverged).
pub fn replay_cli<D: Driver + 'static>(property: &str, path: &str, doc: &Value, build: impl Fn(&Value) -> Option<D>) -> i32 {
    let spec = &doc["driver_spec"];
    let schedule: Vec<usize> = doc["schedule"].as_array().map(|a| a.iter().filter_map(|v| v.as_u64().map(|x| x as usize)).collect()).unwrap_or_default();
    let (d1, d2) = match (build(spec), build(spec)) {
        (Some(a), Some(b)) => (a, b),
        _ => {
            eprintln!("replay file has no usable driver_spec");
            return 2;
        }
    };
    println!("driver: {}", d1.name());
    println!("schedule ({} steps): {:?}", schedule.len(), schedule);
    let (x1, x2, verdict) = replay_twice(d1, &schedule);
    let names = {
        let sh = d2.setup();
        d2.cell_names(&sh)
    };
    for s in x1.trace_json(&names).as_array().cloned().unwrap_or_default() {
        println!("  {:>3} T{} {:<18} {:<26} {:<18} {:<8} -> {}", s["step"], s["thread"], s["call"].as_str().unwrap_or("-"), s["op"].as_str().unwrap_or(""), s["cell"].as_str().unwrap_or(""), s["ord"].as_str().unwrap_or(""), s["result"].as_str().unwrap_or(""));
    }
    for c in &x1.calls {
        println!("  call {}", c.show());
    }
    let same = x1.calls.iter().map(|c| c.show()).collect::<Vec<_>>() == x2.calls.iter().map(|c| c.show()).collect::<Vec<_>>() && x1.abort == x2.abort;
    if !same {
        eprintln!("replay diverged between two runs of the same schedule");
        return 2;
    }
    match (&x1.abort, verdict) {
        (Some(Abort::ReplayDivergence(m)), _) => {
            eprintln!("the recorded schedule does not fit the code as it is now: {}", m);
            2
        }
        (Some(a), _) => {
            println!("execution aborted: {:?}", a);
            println!("VIOLATION property={} replay={}", property, path);
            1
        }
        (None, Err((sig, what))) => {
            println!("{} [{}]", what, sig);
            println!("VIOLATION property={} replay={}", property, path);
            1
        }
        (None, Ok(class)) => {
            println!("schedule conforms (outcome {})", class);
            0
        }
    }
}
