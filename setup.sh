#!/bin/bash
# setup_cmd: build the whole harness once, offline, from files on disk only.
set -e
export CARGO_NET_OFFLINE=true
mkdir -p /verif/logs /verif/evidence /verif/replays
python3 /verif/hooked_copy.py -v
cd /verif/harness
cargo build --release --offline --bins 2>&1 | tail -3
for v in pb plain; do
  (cd /verif/harness/c16/$v && CARGO_TARGET_DIR=/verif/harness/target/c16-$v cargo build --release --offline 2>&1 | tail -1)
done
