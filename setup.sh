#!/bin/bash
# setup_cmd: build the whole harness once, offline, from files on disk only.
set -e
cd /verif/harness
export CARGO_NET_OFFLINE=true
mkdir -p /verif/logs /verif/evidence /verif/replays
cargo build --release --offline --bins 2>&1 | tail -5
