#!/bin/bash
# confirm_seed.sh <seed-dir (/tmp/seed-CXX/a)> <out-json>
# In a scratch worktree of /repo HEAD: patch applies; baseline suite passes with it;
# the demo fails with it and passes without it.
sd="$1"; out="$2"
patch="$sd/patch.diff"; [ -f "$sd/patch_rebased.diff" ] && patch="$sd/patch_rebased.diff"
wt=/tmp/wt-confirm-$$
export CARGO_TARGET_DIR=/tmp/confirm-target CARGO_NET_OFFLINE=true
git -C /repo worktree add -q --detach $wt HEAD || exit 3
cd $wt
res_apply=ok; git apply "$patch" 2>/tmp/apply-$$.err || res_apply="FAILED: $(head -2 /tmp/apply-$$.err | tr '\n' ' ')"
suite="skipped"; demo_with="skipped"; demo_without="skipped"
if [ "$res_apply" = ok ]; then
  if cargo nextest run --workspace --no-fail-fast --tool-config-file pb:/w/lib/nextest.toml --profile pb --test-threads 8 --offline >/tmp/suite-$$.log 2>&1; then suite="passed: $(grep -o '[0-9]* tests run: [0-9]* passed' /tmp/suite-$$.log | tail -1)"; else suite="FAILED: $(grep -E 'tests run|error' /tmp/suite-$$.log | tail -2 | tr '\n' ' ')"; fi
  # place the demo
  if grep -q "prometheus_static_metric" "$sd/demo.rs"; then mkdir -p static-metric/tests; cp "$sd/demo.rs" static-metric/tests/seed_demo.rs; demo_cmd="cargo test --offline -p prometheus-static-metric --test seed_demo"; else mkdir -p tests; cp "$sd/demo.rs" tests/seed_demo.rs; demo_cmd="cargo test --offline -p prometheus --test seed_demo"; fi
  extra=""; grep -q "no-default-features" "$sd/README.md" 2>/dev/null && extra="both-feature-configs"
  run_demo() { if [ -n "$extra" ]; then $demo_cmd >/tmp/demo-$$.log 2>&1 && $demo_cmd --no-default-features >>/tmp/demo-$$.log 2>&1; else $demo_cmd >/tmp/demo-$$.log 2>&1; fi; }
  if run_demo; then demo_with="PASSED (unexpected)"; else demo_with="failed as expected: $(grep -E '^test result|panicked|error(\[|:)' /tmp/demo-$$.log | head -2 | tr '\n' ' ' | cut -c1-200)"; fi
  git apply -R "$patch"
  if run_demo; then demo_without="passed"; else demo_without="FAILED (unexpected): $(grep -E '^test result|panicked|error' /tmp/demo-$$.log | head -2 | tr '\n' ' ' | cut -c1-200)"; fi
fi
cd /; git -C /repo worktree remove --force $wt
python3 - "$out" "$patch" "$res_apply" "$suite" "$demo_with" "$demo_without" <<'PY'
import json,sys
out,patch,a,s,dw,dwo=sys.argv[1:]
json.dump({"patch":patch,"applies_on_head":a,"baseline_suite_with_patch":s,"demo_with_patch":dw,"demo_without_patch":dwo}, open(out,'w'), indent=1)
print(out, a, '|', s, '|', dw[:60], '|', dwo[:40])
PY
