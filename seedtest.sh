#!/bin/bash
# usage: seedtest.sh <patch> <check-id>...   — apply a patch to /repo, run checks (quick), revert.
patch="$1"; shift
cd /repo && git apply "$patch" || { echo "PATCH DOES NOT APPLY"; exit 3; }
for c in "$@"; do
  out=$(/verif/check $c quick 2>&1); rc=$?
  echo "$c rc=$rc $(echo "$out" | grep -c '^VIOLATION') violation lines; first: $(echo "$out" | grep -m1 'what:' | cut -c1-260)"
done
git -C /repo checkout -- . && git -C /repo status --short
rm -rf /verif/replays
