#!/usr/bin/env python3
"""Build the verification copy of /repo's prometheus crate in /verif/harness/gen/repo.

The copy is /repo's current working tree (Cargo.toml, build.rs, proto/, src/) in which every path
`std::sync::...`, `core::sync::atomic::...` and `parking_lot::...` outside src/verif.rs is rewritten to the
drop-in modules `crate::verif::stdsync` / `crate::verif::plsync`, so that a mutex or an atomic that a change
introduces is reported to the scheduler like the ones the crate already has. Files are only rewritten when
their content changes (cargo then rebuilds only what changed). The harness crate depends on this copy."""
import os, re, shutil, sys

SRC = "/repo"
DST = "/verif/harness/gen/repo"
RULES = [
    (re.compile(r"(?<![A-Za-z0-9_:])(?:::)?std::sync::"), "crate::verif::stdsync::"),
    (re.compile(r"(?<![A-Za-z0-9_:])(?:::)?core::sync::atomic::"), "crate::verif::stdsync::atomic::"),
    (re.compile(r"(?<![A-Za-z0-9_:])(?:::)?parking_lot::"), "crate::verif::plsync::"),
]

def transform(rel, text):
    if not rel.startswith("src/") or rel == "src/verif.rs" or not rel.endswith(".rs"):
        return text
    for rx, to in RULES:
        text = rx.sub(to, text)
    return text

def main():
    wanted = {}
    for top in ["Cargo.toml", "build.rs", "README.md", "LICENSE"]:
        p = os.path.join(SRC, top)
        if os.path.isfile(p):
            wanted[top] = p
    for sub in ["src", "proto", "examples", "benches"]:
        base = os.path.join(SRC, sub)
        for root, _, files in os.walk(base):
            for f in files:
                full = os.path.join(root, f)
                wanted[os.path.relpath(full, SRC)] = full
    changed = 0
    for rel, full in wanted.items():
        try:
            data = open(full, "rb").read()
        except OSError:
            continue
        if rel.endswith(".rs"):
            try:
                data = transform(rel, data.decode("utf-8")).encode("utf-8")
            except UnicodeDecodeError:
                pass
        if rel == "Cargo.toml":
            # the copy is not a workspace root of its own
            text = data.decode("utf-8")
            text = re.sub(r"(?ms)^\[workspace\].*?(?=^\[|\Z)", "", text)
            data = text.encode("utf-8")
        out = os.path.join(DST, rel)
        old = None
        if os.path.isfile(out):
            old = open(out, "rb").read()
        if old != data:
            os.makedirs(os.path.dirname(out), exist_ok=True)
            with open(out, "wb") as fh:
                fh.write(data)
            changed += 1
    # remove what is gone from /repo
    for root, _, files in os.walk(DST):
        for f in files:
            rel = os.path.relpath(os.path.join(root, f), DST)
            if rel not in wanted and not rel.startswith("target") and rel != "Cargo.lock":
                os.remove(os.path.join(root, f))
                changed += 1
    if "-v" in sys.argv:
        print("hooked copy: %d files, %d rewritten" % (len(wanted), changed))

main()
