#!/usr/bin/env python3
"""Apply every kept seed to /repo (never committed), run the designated quick checks, undo, and write
/verif/seeded/<seed>/{patch.diff,demo.rs,notes.md,meta.json}."""
import json, os, re, shutil, subprocess, sys

SEEDS = {
 # seed dir : (property, needs, checks to run)
 "seed-C01/a": ("C01", "interleaving: two first requests for one label value race", ["C01","C10"]),
 "seed-C01/b": ("C01", "history: local inc, clone, flush both handles", ["C01","C12"]),
 "seed-C02/a": ("C02", "interleaving: two overlapping collects", ["C02","C03"]),
 "seed-C02/b": ("C02", "interleaving: local flush tail overlapping a collect", ["C02","C03"]),
 "seed-C03/a": ("C03", "interleaving: local flush racing a collect", ["C03","C02"]),
 "seed-C03/b": ("C03", "interleaving: two overlapping collects with observers", ["C03","C02"]),
 "seed-C04/a": ("C04", "input: multi-byte character after an escaped character", ["C04"]),
 "seed-C04/b": ("C04", "history: failed encode followed by an encode on the same thread", ["C04","C17"]),
 "seed-C05/a": ("C05", "interleaving: racing first requests (orphan child)", ["C10","C01","C05"]),
 "seed-C05/b": ("C05", "input: label map with an undeclared extra key", ["C05","C17"]),
 "seed-C06/a": ("C06", "history: register, unregister, register with different help", ["C06"]),
 "seed-C06/b": ("C06", "history: unregister of an overlapping, never registered multi-descriptor collector", ["C06"]),
 "seed-C07/a": ("C07", "input: metric name already starting with '<registry prefix>_'", ["C07","C14"]),
 "seed-C07/b": ("C07", "state + hash seed: empty sibling vector collected first", ["C07"]),
 "seed-C08/a": ("C08", "input: NaN observation", ["C08"]),
 "seed-C08/b": ("C08", "input: bucket lists [+Inf], [..,+Inf,+Inf]", ["C08","C17"]),
 "seed-C09/a": ("C09", "input: empty label name", ["C09","C17"]),
 "seed-C09/b": ("C09", "input: non-adjacent repeated variable label", ["C09","C17"]),
 "seed-C10/a": ("C10", "interleaving: racing creators", ["C10","C01"]),
 "seed-C10/b": ("C10", "history: same label values through list form and map form", ["C10","C05"]),
 "seed-C11/a": ("C11", "interleaving: sub/dec racing any write (float gauge)", ["C11"]),
 "seed-C11/b": ("C11", "interleaving: set racing an RMW (int gauge)", ["C11"]),
 "seed-C12/a": ("C12", "input: flushed batch with a non-positive sum", ["C12","C08"]),
 "seed-C12/b": ("C12", "history: 4 steps over two local vectors (failing remove keeps stale cache)", ["C12"]),
 "seed-C13/a": ("C13", "history: failed encode followed by an encode on the same thread", ["C13"]),
 "seed-C13/b": ("C13", "history: encode, mutate through a generated setter, re-encode", ["C13"]),
 "seed-C14/a": ("C14", "input: counter X + gauge '<prefix>_X' in a prefixed registry", ["C14","C07"]),
 "seed-C14/b": ("C14", "input: different names and kinds with equal help and label names", ["C14","C07"]),
 "seed-C15/a": ("C15", "input: name/first-constant-value boundary shift", ["C15"]),
 "seed-C15/b": ("C15", "hash seed: >= 2 label names", ["C15"]),
 "seed-C16/a": ("C16", "input: common label sorting before an own label (plain model only)", ["C16"]),
 "seed-C16/b": ("C16", "input: gauge holding -0.0 (protobuf model only)", ["C16"]),
 "seed-C17/a": ("C17", "input: NaN as last bucket bound", ["C17","C08"]),
 "seed-C17/b": ("C17", "interleaving: two racing removes of one child (panic)", ["C10","C17"]),
 "seed-C18/a": ("C18", "history: start_timer on a local histogram holding pending samples", ["C18","C12"]),
 "seed-C18/b": ("C18", "input: duration above the largest finite bucket bound", ["C18","C08"]),
 "seed-C19/a": ("C19", "configuration: backing vector label order differs from declaration order (auto-flush)", ["C19"]),
 "seed-C19/b": ("C19", "input: renamed values whose identifier order differs from their string order", ["C19"]),
 "seed-C20/a": ("C20", "history: second registration of an equal descriptor through *_with_registry!", ["C20"]),
 "seed-C20/b": ("C20", "input: opts! with two constant-label maps sharing a key", ["C20"]),
}
EXTRA = json.load(open('/verif/seed_extra.json')) if os.path.exists('/verif/seed_extra.json') else {}
SEEDS.update({k: tuple(v) for k, v in EXTRA.items()})

only = sys.argv[1:]
for sd, (prop, needs, checks) in SEEDS.items():
    _m = re.match(r"seed(\d*)-(.*)", sd)
    name = _m.group(2).replace("/", "-") + (("-r" + _m.group(1)) if _m.group(1) else "")
    if only and name not in only:
        continue
    src = "/tmp/" + sd
    out = "/verif/seeded/" + name
    if os.path.isdir(src):
        patch = src + "/patch_rebased.diff" if os.path.exists(src + "/patch_rebased.diff") else src + "/patch.diff"
        os.makedirs(out, exist_ok=True)
        shutil.copy(patch, out + "/patch.diff")
        shutil.copy(src + "/demo.rs", out + "/demo.rs")
        if os.path.exists(src + "/README.md"):
            shutil.copy(src + "/README.md", out + "/notes.md")
    elif not os.path.exists(out + "/patch.diff"):
        print("missing", src); continue
    conf = {}
    cj = "/tmp/confirm/" + (("r" + _m.group(1) + "_") if _m.group(1) else "") + _m.group(2).replace("/", "_") + ".json"
    if os.path.exists(cj):
        conf = json.load(open(cj))
    elif os.path.exists(out + "/meta.json"):
        conf = json.load(open(out + "/meta.json")).get("confirmed_in_scratch_worktree", {})
    r = subprocess.run(["git", "-C", "/repo", "apply", out + "/patch.diff"], capture_output=True, text=True)
    results = {}
    if r.returncode != 0:
        results = {"apply": "FAILED " + r.stderr[:200]}
    else:
        for c in checks:
            # "C03" = quick tier; "C03:thorough:HIST_ONLY=E11" = another tier, restricted to some drivers by an env filter
            parts = c.split(":")
            env = dict(os.environ)
            for kv in parts[2:]:
                k, v = kv.split("=", 1)
                env[k] = v
            p = subprocess.run(["/verif/check", parts[0], parts[1] if len(parts) > 1 else "quick"], capture_output=True, text=True, env=env)
            first = next((l.strip() for l in p.stdout.splitlines() if l.strip().startswith("what:")), "")
            results[c] = {"exit": p.returncode, "violation_lines": sum(1 for l in p.stdout.splitlines() if l.startswith("VIOLATION")), "first": first[:300]}
        subprocess.run(["git", "-C", "/repo", "checkout", "--", "."])
    shutil.rmtree("/verif/replays", ignore_errors=True)
    meta = {"seed": name, "breaks_property": prop, "needs_to_manifest": needs,
            "written_by": "independent sub-agent given only the property text and a scratch worktree",
            "confirmed_in_scratch_worktree": conf,
            "commands": ["git -C /repo apply /verif/seeded/%s/patch.diff" % name] + [(" ".join(c.split(":")[2:]) + " /verif/check %s %s" % (c.split(":")[0], (c.split(":") + ["quick"])[1])).strip() for c in checks] + ["git -C /repo checkout -- ."],
            "quick_check_results_with_patch_applied": results,
            "caught_by": [c for c, v in results.items() if isinstance(v, dict) and v.get("exit") == 1],
            "undecided_by": [c for c, v in results.items() if isinstance(v, dict) and v.get("exit") == 2]}
    json.dump(meta, open(out + "/meta.json", "w"), indent=1)
    print(name, {c: (v["exit"] if isinstance(v, dict) else v) for c, v in results.items()}, flush=True)
