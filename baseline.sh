#!/bin/bash
# Runs the repository's pinned baseline suite with the verification guard OFF.
cd /repo || exit 2
export CARGO_NET_OFFLINE=true
if command -v cargo-nextest >/dev/null 2>&1 && [ -f /w/lib/nextest.toml ]; then
    exec cargo nextest run --workspace --no-fail-fast --tool-config-file pb:/w/lib/nextest.toml --profile pb --test-threads 8 --offline
else
    exec cargo test --workspace --no-fail-fast --offline
fi
